//! Adversary toolkit for the linear-code schemes (Ligero / Brakedown): recomputes the coefficient
//! matrix, its encoding and the Merkle tree from the polynomial, replays the verifier's transcript
//! and builds the two targeted forgeries of DESIGN.md §3.3:
//!  (a) "forged-columns": columns solved to satisfy both column equations for a false `v'`, with the
//!      honest authentication paths of the queried indices attached (accepted exactly when the boolean
//!      result of Merkle path verification is not used);
//!  (b) "stretched-v": `v'` = `v` interleaved with zeros (coefficients of p(X^k)): every column
//!      equation still holds, the value equation reads a different vector (accepted exactly when the
//!      length of `v` is not checked).
use crate::scenario::{Fault, Op, Scenario};
use crate::schemes::*;
use crate::seams::*;
use crate::session::{Claim, Sess};
use crate::surgery::{to_mirror, LcCommMirror, LcProofMirror};
use ark_crypto_primitives::{crh::CRHScheme, merkle_tree::MerkleTree, sponge::CryptographicSponge};
use ark_ff::{Field, PrimeField, Zero};
use ark_poly_commit::linear_codes::{LinCodeParametersInfo, LinearEncode};
use ark_poly_commit::Polynomial;
use ark_serialize::CanonicalSerialize;

pub struct LcCtx<F: PrimeField> {
    pub n_rows: usize,
    pub n_cols: usize,
    pub n_ext_cols: usize,
    pub ext_cols: Vec<Vec<F>>,
    pub tree: MerkleTree<MT>,
}

pub fn calculate_t<F: PrimeField>(sec_param: usize, distance: (usize, usize), codeword_len: usize) -> Option<usize> {
    let field_bits = F::MODULUS_BIT_SIZE as i32;
    let residual = codeword_len as f64 / 2.0_f64.powi(field_bits);
    let rhs = (2.0_f64.powi(-(sec_param as i32)) - residual).log2();
    if !rhs.is_normal() {
        return None;
    }
    let denom = (1.0 - 0.5 * distance.0 as f64 / distance.1 as f64).log2();
    if !denom.is_normal() {
        return None;
    }
    let t = ((rhs - 1.0) / denom).ceil() as usize;
    Some(t.min(codeword_len))
}

pub fn num_bytes(n: usize) -> usize {
    ((usize::BITS - n.leading_zeros()) as usize + 7) / 8
}

pub fn indices_from_sponge<F: PrimeField>(n: usize, t: usize, sponge: &mut TraceSponge<F>) -> Vec<usize> {
    let nb = num_bytes(n);
    (0..t)
        .map(|_| {
            let bytes = sponge.squeeze_bytes(nb);
            sponge.absorb(&bytes);
            bytes.iter().fold(0usize, |acc, &x| (acc << 8) + x as usize) % n
        })
        .collect()
}

pub fn build_ctx<F, P, L>(params: &L::LinCodePCParams, poly: &P) -> Option<LcCtx<F>>
where
    F: PrimeField,
    P: Polynomial<F>,
    L: LinearEncode<F, MT, P, CH<F>>,
{
    let mut coeffs = L::poly_to_vec(poly);
    let (n_rows, n_cols) = params.compute_dimensions(coeffs.len());
    coeffs.resize(n_rows * n_cols, F::zero());
    let rows: Vec<Vec<F>> = (0..n_rows).map(|r| coeffs[r * n_cols..(r + 1) * n_cols].to_vec()).collect();
    let ext: Vec<Vec<F>> = rows.iter().map(|r| L::encode(r, params)).collect::<Result<_, _>>().ok()?;
    let n_ext_cols = ext[0].len();
    let ext_cols: Vec<Vec<F>> = (0..n_ext_cols).map(|c| (0..n_rows).map(|r| ext[r][c]).collect()).collect();
    let mut leaves: Vec<Vec<u8>> = ext_cols.iter().map(|c| <CH<F> as CRHScheme>::evaluate(params.col_hash_params(), c.clone()).unwrap()).collect();
    leaves.resize(leaves.len().next_power_of_two(), Vec::new());
    let tree = MerkleTree::<MT>::new(params.leaf_hash_param(), params.two_to_one_hash_param(), leaves).ok()?;
    Some(LcCtx { n_rows, n_cols, n_ext_cols, ext_cols, tree })
}

fn dot<F: Field>(a: &[F], b: &[F]) -> F {
    a.iter().zip(b.iter()).map(|(x, y)| *x * y).sum()
}

/// The two forgeries for an `Open` claim; `victim_pos` is the position of the attacked polynomial.
pub fn forge<S, L>(
    scn: &Scenario,
    sess: &Sess<S>,
    op: &Op,
    honest: &Claim<S>,
    victim_pos: usize,
    pre_verifier: &TraceSponge<S::F>,
    f: &Fault,
) -> Vec<(String, Claim<S>)>
where
    S: Scheme,
    L: LinearEncode<S::F, MT, S::P, CH<S::F>>,
    Vk<S>: std::borrow::Borrow<L::LinCodePCParams>,
    Proof<S>: CanonicalSerialize + ark_serialize::CanonicalDeserialize,
{
    use std::borrow::Borrow;
    let mut out = vec![];
    let (Op::Open { polys, point }, Claim::Open { labels, point: z, values, proof }) = (op, honest) else { return out };
    let params: &L::LinCodePCParams = sess.verifier.vk.borrow();
    let Some(mirror): Option<Vec<LcProofMirror<S::F, MT>>> = to_mirror(proof) else { return out };
    if mirror.len() != polys.len() || victim_pos >= polys.len() {
        return out;
    }
    let wf = params.check_well_formedness();
    let point_vec = L::point_to_vec(z.clone());
    // replay the verifier's transcript for the polynomials before the victim
    let mut sp = pre_verifier.fork();
    let comm_of = |label: &String| sess.verifier.comms.iter().find(|c| c.label() == label).and_then(|c| to_mirror::<_, LcCommMirror<MT>>(c.commitment()));
    for k in 0..victim_pos {
        let Some(cm) = comm_of(&labels[k]) else { return out };
        let Some(t) = calculate_t::<S::F>(params.sec_param(), params.distance(), cm.n_ext_cols) else { return out };
        let rb = ark_poly_commit::to_bytes!(&cm.root).unwrap();
        sp.absorb(&rb);
        if wf {
            let _r: Vec<S::F> = sp.squeeze_field_elements(cm.n_rows);
            if let Some(w) = &mirror[k].well_formedness { sp.absorb(w); }
        }
        sp.absorb(&point_vec);
        sp.absorb(&mirror[k].v);
        let _ = indices_from_sponge(cm.n_ext_cols, t, &mut sp);
    }
    let vi = polys[victim_pos];
    let Some(cm) = comm_of(&labels[victim_pos]) else { return out };
    let Some(ctx) = build_ctx::<S::F, S::P, L>(params, sess.prover.polys[vi].polynomial()) else { return out };
    if ctx.n_rows != cm.n_rows || ctx.n_cols != cm.n_cols || ctx.n_ext_cols != cm.n_ext_cols {
        return out;
    }
    let Some(t) = calculate_t::<S::F>(params.sec_param(), params.distance(), cm.n_ext_cols) else { return out };
    let (a, b) = L::tensor(z, cm.n_cols, cm.n_rows);
    let hon = &mirror[victim_pos];
    let rb = ark_poly_commit::to_bytes!(&cm.root).unwrap();
    let mut base = sp.fork();
    base.absorb(&rb);
    let r: Vec<S::F> = if wf {
        let r = base.squeeze_field_elements(cm.n_rows);
        if let Some(w) = &hon.well_formedness { base.absorb(w); }
        r
    } else {
        vec![]
    };
    base.absorb(&point_vec);
    let indices_for = |v2: &Vec<S::F>| -> Vec<usize> {
        let mut s2 = base.fork();
        s2.absorb(v2);
        indices_from_sponge(cm.n_ext_cols, t, &mut s2)
    };
    let finish = |name: &str, v2: Vec<S::F>, cols_of: &dyn Fn(usize, usize) -> Option<Vec<S::F>>, out: &mut Vec<(String, Claim<S>)>| {
        let idx = indices_for(&v2);
        let mut columns = vec![];
        let mut paths = vec![];
        let mut any_forged = false;
        for (j, &q) in idx.iter().enumerate() {
            let Some(c) = cols_of(j, q) else { return };
            any_forged |= c != ctx.ext_cols[q];
            columns.push(c);
            let Ok(p) = ctx.tree.generate_proof(q) else { return };
            paths.push(p);
        }
        let claimed = dot(&v2, &a);
        if claimed == values[victim_pos] {
            return; // the forged statement would be true
        }
        if name.starts_with("forged-columns") && !any_forged {
            // every queried column is authentic: the false v' agrees with the committed matrix on all
            // t queried positions - the code's statistical soundness error at toy parameters, not a
            // verifier that accepts something it must refuse
            return;
        }
        let mut m2 = mirror.clone();
        m2[victim_pos] = LcProofMirror { paths, v: v2, columns, well_formedness: hon.well_formedness.clone() };
        let Some(p2): Option<Proof<S>> = to_mirror(&m2) else { return };
        let mut vals = values.clone();
        vals[victim_pos] = claimed;
        out.push((name.to_string(), Claim::Open { labels: labels.clone(), point: z.clone(), values: vals, proof: p2 }));
    };
    // (b) stretched v: interleave zeros (k = 2, 4); true columns at the new indices
    for k in [2usize, 4] {
        let mut v2 = vec![S::F::zero(); hon.v.len() * k];
        for (j, c) in hon.v.iter().enumerate() {
            v2[j * k] = *c;
        }
        finish(&format!("stretched-v-x{k}"), v2, &|_, q| Some(ctx.ext_cols[q].clone()), &mut out);
    }
    // (c) free v: v' = v + d*e_0 with the true columns and their honest paths at the new indices
    //     (accepted exactly when the column equation <b, col_j> == E(v')[q_j] is not enforced)
    if !hon.v.is_empty() {
        let d: S::F = {
            use ark_ff::UniformRand;
            S::F::rand(&mut stream(scn.seed, "forge-free-v", f.param))
        };
        let mut v2 = hon.v.clone();
        let k = (f.aux) % v2.len();
        v2[k] += d;
        finish("free-v", v2, &|_, q| Some(ctx.ext_cols[q].clone()), &mut out);
    }
    // (a) forged columns for v' = v + d*e_0
    if cm.n_rows >= 2 && !a.is_empty() {
        let d: S::F = {
            use ark_ff::UniformRand;
            S::F::rand(&mut stream(scn.seed, "forge", f.param))
        };
        let mut v2 = hon.v.clone();
        v2[0] += d;
        if let (Ok(e_old), Ok(e_new)) = (L::encode(&hon.v, params), L::encode(&v2, params)) {
            let det = if wf { r[0] * b[1] - r[1] * b[0] } else { b[0] };
            if !det.is_zero() {
                let cols = |_: usize, q: usize| -> Option<Vec<S::F>> {
                    let need = e_new[q] - e_old[q];
                    let mut c = ctx.ext_cols[q].clone();
                    if wf {
                        // u = (x, y, 0, ...): r0 x + r1 y = 0, b0 x + b1 y = need
                        let inv = det.inverse()?;
                        let x = -r[1] * need * inv;
                        let y = r[0] * need * inv;
                        c[0] += x;
                        c[1] += y;
                    } else {
                        c[0] += need * b[0].inverse()?;
                    }
                    Some(c)
                };
                finish("forged-columns", v2, &cols, &mut out);
            }
        }
    }
    // (d) forged columns for v' = v + c*D where E(D) vanishes on a large set Q of codeword positions
    //     (D from the null space of the encoding restricted to Q): the columns at positions inside Q
    //     are the authentic ones with their authentic paths, only the others are forged. c is ground
    //     until the LAST queried position falls inside Q - accepted by a verifier that lets one good
    //     path stand for all of them, refused by one that authenticates every column.
    if cm.n_rows >= 2 && !a.is_empty() && cm.n_cols >= 2 && cm.n_cols <= 64 {
        let nq = (cm.n_cols - 1).min(cm.n_ext_cols);
        let basis: Option<Vec<Vec<S::F>>> = (0..cm.n_cols).map(|i| { let mut e = vec![S::F::zero(); cm.n_cols]; e[i] = S::F::from(1u64); L::encode(&e, params).ok() }).collect();
        if let Some(basis) = basis {
            // rows: positions 0..nq, columns: message coordinates
            let m: Vec<Vec<S::F>> = (0..nq).map(|q| (0..cm.n_cols).map(|i| basis[i][q]).collect()).collect();
            if let Some(delta) = null_vector(m, cm.n_cols) {
                if let Ok(e_delta) = L::encode(&delta, params) {
                    let det = if wf { r[0] * b[1] - r[1] * b[0] } else { b[0] };
                    if !det.is_zero() && e_delta.iter().any(|x| !x.is_zero()) {
                        for c in 1..=24u64 {
                            let cf = S::F::from(c) * S::F::from((f.param | 1) as u64);
                            let v2: Vec<S::F> = hon.v.iter().zip(delta.iter()).map(|(x, d)| *x + cf * d).collect();
                            let idx = indices_for(&v2);
                            let Some(&last) = idx.last() else { break };
                            if !e_delta[last].is_zero() { continue; }
                            let cols = |_: usize, q: usize| -> Option<Vec<S::F>> {
                                let need = cf * e_delta[q];
                                let mut col = ctx.ext_cols[q].clone();
                                if need.is_zero() { return Some(col); }
                                if wf {
                                    let inv = det.inverse()?;
                                    col[0] += -r[1] * need * inv;
                                    col[1] += r[0] * need * inv;
                                } else {
                                    col[0] += need * b[0].inverse()?;
                                }
                                Some(col)
                            };
                            finish("forged-columns-last-authentic", v2, &cols, &mut out);
                            break;
                        }
                    }
                }
            }
        }
    }
    let _ = point;
    out
}

/// a non-zero vector of the null space of `m` (rows x n), if the rank is below n
fn null_vector<F: Field>(mut m: Vec<Vec<F>>, n: usize) -> Option<Vec<F>> {
    let rows = m.len();
    let mut pivot_col_of_row: Vec<usize> = vec![];
    let mut row = 0;
    let mut is_pivot = vec![false; n];
    for col in 0..n {
        if row >= rows { break; }
        let Some(p) = (row..rows).find(|&i| !m[i][col].is_zero()) else { continue };
        m.swap(row, p);
        let inv = m[row][col].inverse()?;
        for j in col..n { m[row][j] *= inv; }
        for i in 0..rows {
            if i != row && !m[i][col].is_zero() {
                let f = m[i][col];
                for j in col..n { let t = m[row][j] * f; m[i][j] -= t; }
            }
        }
        pivot_col_of_row.push(col);
        is_pivot[col] = true;
        row += 1;
    }
    let free = (0..n).find(|&c| !is_pivot[c])?;
    let mut x = vec![F::zero(); n];
    x[free] = F::one();
    for (i, &pc) in pivot_col_of_row.iter().enumerate() {
        x[pc] = -m[i][free];
    }
    Some(x)
}
