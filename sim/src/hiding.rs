//! C07 helpers: structural identities between a hiding commitment, the returned commitment state
//! and the public hiding generators of the committer key; blinding fields of proofs.
use ark_ec::{pairing::Pairing, AffineRepr, CurveGroup};
use ark_ff::{PrimeField, Zero};
use ark_poly::{multivariate::{SparsePolynomial, SparseTerm, Term}, univariate::DensePolynomial, Polynomial};
use ark_poly_commit::{ipa_pc, kzg10, marlin_pc, marlin_pst13_pc, sonic_pc, LabeledPolynomial};
use std::ops::Mul;

/// naive multi-scalar sum (no MSM code shared with the library path under test)
fn naive<G: AffineRepr>(bases: &[G], scalars: &[G::ScalarField]) -> G::Group {
    let mut acc = G::Group::zero();
    for (b, s) in bases.iter().zip(scalars.iter()) {
        acc += b.mul(*s);
    }
    acc
}

fn check_blinder<F: PrimeField>(what: &str, coeffs: &[F], h: Option<usize>, fails: &mut Vec<String>) {
    match h {
        None => {
            if !coeffs.is_empty() && coeffs.iter().any(|c| !c.is_zero()) {
                fails.push(format!("{what}: non-hiding commitment carries a blinding polynomial"));
            }
        }
        Some(h) => {
            // degree exactly h+1  <=>  h+2 coefficients, the top one non-zero
            if coeffs.len() != h + 2 {
                fails.push(format!("{what}: blinding polynomial has {} coefficients, needs h+2 = {}", coeffs.len(), h + 2));
            }
            if coeffs.iter().filter(|c| c.is_zero()).count() > 0 && coeffs.len() > 1 {
                fails.push(format!("{what}: blinding polynomial has zero coefficients (not sampled uniformly)"));
            }
        }
    }
}

pub fn marlin_audit<E: Pairing>(
    ck: &marlin_pc::CommitterKey<E>,
    lp: &LabeledPolynomial<E::ScalarField, DensePolynomial<E::ScalarField>>,
    comm: &marlin_pc::Commitment<E>,
    plain: &marlin_pc::Commitment<E>,
    state: &marlin_pc::Randomness<E::ScalarField, DensePolynomial<E::ScalarField>>,
) -> Vec<String> {
    let mut fails = vec![];
    let h = lp.hiding_bound();
    check_blinder("rand", &state.rand.blinding_polynomial.coeffs, h, &mut fails);
    let diff = comm.comm.0.into_group() - plain.comm.0.into_group();
    if diff != naive(&ck.powers_of_gamma_g, &state.rand.blinding_polynomial.coeffs) {
        fails.push("commitment - non-hiding commitment != <blinding coefficients, powers_of_gamma_g>".into());
    }
    if state.rand.blinding_polynomial.coeffs.len() > ck.powers_of_gamma_g.len() {
        fails.push("blinding polynomial longer than the published hiding generators".into());
    }
    match (lp.degree_bound(), &comm.shifted_comm, &plain.shifted_comm, &state.shifted_rand) {
        (Some(_), Some(sc), Some(pc), Some(sr)) => {
            check_blinder("shifted_rand", &sr.blinding_polynomial.coeffs, h, &mut fails);
            if sc.0.into_group() - pc.0.into_group() != naive(&ck.powers_of_gamma_g, &sr.blinding_polynomial.coeffs) {
                fails.push("shifted commitment - non-hiding shifted commitment != <shifted blinding coefficients, powers_of_gamma_g>".into());
            }
            if h.is_some() && sr.blinding_polynomial.coeffs == state.rand.blinding_polynomial.coeffs {
                fails.push("the degree-bound part is blinded with the same polynomial as the main part".into());
            }
        }
        (None, None, None, None) => {}
        (None, None, None, Some(sr)) if sr.blinding_polynomial.is_zero() => {}
        _ => fails.push("presence of shifted commitment / shifted randomness does not match the degree bound".into()),
    }
    fails
}

pub fn sonic_audit<E: Pairing>(
    ck: &sonic_pc::CommitterKey<E>,
    lp: &LabeledPolynomial<E::ScalarField, DensePolynomial<E::ScalarField>>,
    comm: &kzg10::Commitment<E>,
    plain: &kzg10::Commitment<E>,
    state: &kzg10::Randomness<E::ScalarField, DensePolynomial<E::ScalarField>>,
) -> Vec<String> {
    let mut fails = vec![];
    let h = lp.hiding_bound();
    check_blinder("rand", &state.blinding_polynomial.coeffs, h, &mut fails);
    let gens: Vec<E::G1Affine> = match lp.degree_bound() {
        None => ck.powers_of_gamma_g.clone(),
        Some(d) => ck.shifted_powers_of_gamma_g.as_ref().and_then(|m| m.get(&d)).cloned().unwrap_or_default(),
    };
    if state.blinding_polynomial.coeffs.len() > gens.len() {
        fails.push("blinding polynomial longer than the published hiding generators".into());
    }
    if comm.0.into_group() - plain.0.into_group() != naive(&gens, &state.blinding_polynomial.coeffs) {
        fails.push("commitment - non-hiding commitment != <blinding coefficients, hiding generators of this bound>".into());
    }
    fails
}

pub fn pst13_audit<E: Pairing>(
    ck: &marlin_pst13_pc::CommitterKey<E, SparsePolynomial<E::ScalarField, SparseTerm>>,
    lp: &LabeledPolynomial<E::ScalarField, SparsePolynomial<E::ScalarField, SparseTerm>>,
    comm: &marlin_pc::Commitment<E>,
    plain: &marlin_pc::Commitment<E>,
    state: &marlin_pst13_pc::Randomness<E, SparsePolynomial<E::ScalarField, SparseTerm>>,
) -> Vec<String> {
    let mut fails = vec![];
    let bp = &state.blinding_polynomial;
    match lp.hiding_bound() {
        None => {
            if !bp.is_zero() {
                fails.push("non-hiding commitment carries a blinding polynomial".into());
            }
        }
        Some(h) => {
            if bp.degree() != h + 1 {
                fails.push(format!("blinding polynomial has degree {}, needs h+1 = {}", bp.degree(), h + 1));
            }
            // at least h+2 independent coefficients (constant + h+1 powers of some variable)
            if bp.terms.len() < h + 2 {
                fails.push(format!("blinding polynomial has only {} terms, needs >= h+2 = {}", bp.terms.len(), h + 2));
            }
        }
    }
    let mut acc = E::G1::zero();
    for (c, t) in bp.terms.iter() {
        if t.is_constant() {
            acc += ck.gamma_g.mul(*c);
        } else {
            let vars = t.vars();
            if vars.len() != 1 || t.degree() - 1 >= ck.powers_of_gamma_g[vars[0]].len() {
                fails.push("blinding polynomial has a term without a published hiding generator".into());
                return fails;
            }
            acc += ck.powers_of_gamma_g[vars[0]][t.degree() - 1].mul(*c);
        }
    }
    if comm.comm.0.into_group() - plain.comm.0.into_group() != acc {
        fails.push("commitment - non-hiding commitment != <blinding coefficients, powers_of_gamma_g>".into());
    }
    fails
}

pub fn ipa_audit<G: AffineRepr>(
    ck: &ipa_pc::CommitterKey<G>,
    lp: &LabeledPolynomial<G::ScalarField, DensePolynomial<G::ScalarField>>,
    comm: &ipa_pc::Commitment<G>,
    plain: &ipa_pc::Commitment<G>,
    state: &ipa_pc::Randomness<G>,
) -> Vec<String> {
    let mut fails = vec![];
    let hiding = lp.hiding_bound().is_some();
    if !hiding && (!state.rand.is_zero() || state.shifted_rand.map_or(false, |r| !r.is_zero())) {
        fails.push("non-hiding commitment carries randomness".into());
    }
    if hiding && state.rand.is_zero() {
        fails.push("hiding commitment with zero randomness".into());
    }
    if comm.comm.into_group() - plain.comm.into_group() != ck.s.mul(state.rand) {
        fails.push("commitment - non-hiding commitment != rand * s".into());
    }
    match (lp.degree_bound(), comm.shifted_comm, plain.shifted_comm) {
        (Some(_), Some(sc), Some(pc)) => {
            let sr = state.shifted_rand.unwrap_or_else(G::ScalarField::zero);
            if hiding && (state.shifted_rand.is_none() || sr.is_zero()) {
                fails.push("hiding degree-bound part without its own randomness".into());
            }
            if hiding && sr == state.rand {
                fails.push("the degree-bound part reuses the randomness of the main part".into());
            }
            if sc.into_group() - pc.into_group() != ck.s.mul(sr) {
                fails.push("shifted commitment - non-hiding shifted commitment != shifted_rand * s".into());
            }
        }
        (None, None, None) => {}
        _ => fails.push("presence of the shifted commitment does not match the degree bound".into()),
    }
    fails
}

/// Hyrax (always hiding): row_coms[i] == <row_i, com_key> + randomness[i] * h
pub fn hyrax_audit<G: AffineRepr>(com_key: &[G], h: G, row_coms: &[G], randomness: &[G::ScalarField], rows: &[Vec<G::ScalarField>]) -> Vec<String> {
    let mut fails = vec![];
    if row_coms.len() != rows.len() || randomness.len() != rows.len() {
        fails.push(format!("{} row commitments, {} blinders, {} matrix rows", row_coms.len(), randomness.len(), rows.len()));
        return fails;
    }
    for i in 0..rows.len() {
        let want = naive(com_key, &rows[i]) + h.mul(randomness[i]);
        if want.into_affine() != row_coms[i] {
            fails.push(format!("row commitment {i} != <row, com_key> + randomness * h"));
            break;
        }
    }
    if randomness.iter().any(|r| r.is_zero()) {
        fails.push("a row is committed with zero randomness".into());
    }
    for i in 0..randomness.len() {
        for j in (i + 1)..randomness.len() {
            if randomness[i] == randomness[j] {
                fails.push(format!("rows {i} and {j} share one blinder"));
                return fails;
            }
        }
    }
    fails
}

/// blinding polynomial evaluation contribution for the KZG family: sum_i xi_i * r_i(z) [+ xi'_i * r'_i(z)]
pub fn eval_uv<F: PrimeField>(p: &DensePolynomial<F>, z: &F) -> F {
    let mut acc = F::zero();
    for c in p.coeffs.iter().rev() {
        acc = acc * z + c;
    }
    acc
}

pub fn kzg_audit<E: Pairing>(
    powers_of_gamma_g: &[E::G1Affine],
    lp: &LabeledPolynomial<E::ScalarField, DensePolynomial<E::ScalarField>>,
    comm: &kzg10::Commitment<E>,
    plain: &kzg10::Commitment<E>,
    state: &kzg10::Randomness<E::ScalarField, DensePolynomial<E::ScalarField>>,
) -> Vec<String> {
    let mut fails = vec![];
    check_blinder("rand", &state.blinding_polynomial.coeffs, lp.hiding_bound(), &mut fails);
    if state.blinding_polynomial.coeffs.len() > powers_of_gamma_g.len() {
        fails.push("blinding polynomial longer than the published hiding generators".into());
    }
    if comm.0.into_group() - plain.0.into_group() != naive(powers_of_gamma_g, &state.blinding_polynomial.coeffs) {
        fails.push("commitment - non-hiding commitment != <blinding coefficients, powers_of_gamma_g>".into());
    }
    fails
}
