//! Parties, store, channel (DESIGN.md §2.2). Authority, prover and verifier are separate values
//! that only exchange canonical bytes; every party step runs under `catch_unwind`.
use crate::scenario::*;
use crate::schemes::*;
use crate::seams::*;
use ark_crypto_primitives::sponge::CryptographicSponge;
use ark_ff::{Field, One, UniformRand, Zero};
use ark_poly_commit::{
    BatchLCProof, Evaluations, LCTerm, LabeledCommitment, LabeledPolynomial, LinearCombination,
    PolynomialCommitment, QuerySet,
};
use ark_serialize::{CanonicalDeserialize, CanonicalSerialize, Compress, Validate};
use std::collections::BTreeMap;

#[derive(Default, Clone, Debug)]
pub struct Stats {
    /// fault kind -> how often it actually fired (was applied to something then consumed)
    pub fired: BTreeMap<String, u64>,
    /// "rare condition hit" probes
    pub probes: BTreeMap<String, u64>,
    pub steps: u64,
    pub checks: u64,
}
impl Stats {
    pub fn fire(&mut self, k: &str) {
        *self.fired.entry(k.to_string()).or_default() += 1;
    }
    pub fn probe(&mut self, k: &str) {
        *self.probes.entry(k.to_string()).or_default() += 1;
    }
    pub fn merge(&mut self, o: &Stats) {
        for (k, v) in &o.fired {
            *self.fired.entry(k.clone()).or_default() += v;
        }
        for (k, v) in &o.probes {
            *self.probes.entry(k.clone()).or_default() += v;
        }
        self.steps += o.steps;
        self.checks += o.checks;
    }
}

/// What went wrong in a run, as the oracle saw it.
#[derive(Clone, Debug, serde::Serialize, serde::Deserialize, PartialEq)]
pub struct Violation {
    pub property: String,
    /// oracle that fired, e.g. "liveness", "safety", "dual-verifier"
    pub oracle: String,
    pub scheme: String,
    /// fault kind involved ("none" for fault-free runs)
    pub fault: String,
    /// target component (coarse), part of the signature used for minimisation and known findings
    pub component: String,
    pub detail: String,
}
impl Violation {
    pub fn signature(&self) -> String {
        format!("{}|{}|{}|{}|{}", self.property, self.oracle, family_of(&self.scheme) as u8, self.fault, self.component)
    }
    /// key used by known_findings.json: family-level, not curve-level
    pub fn finding_key(&self) -> String {
        let fam = self.scheme.split('-').next().unwrap_or("");
        format!("{}|{}|{}|{}|{}", self.property, fam, self.oracle, self.fault, self.component)
    }
}

/// A harness-level problem: never a VIOLATION (exit 2).
#[derive(Debug, Clone)]
pub struct HarnessError(pub String);

pub fn compress_of(env: &Env) -> Compress {
    if env.compress {
        Compress::Yes
    } else {
        Compress::No
    }
}
pub fn validate_of(env: &Env) -> Validate {
    if env.validate {
        Validate::Yes
    } else {
        Validate::No
    }
}

pub fn to_bytes<T: CanonicalSerialize>(x: &T, c: Compress) -> Vec<u8> {
    let mut b = vec![];
    x.serialize_with_mode(&mut b, c).expect("in-memory serialization cannot fail");
    b
}

/// One crossing of the store / channel: serialize through a short-writing writer, deserialize
/// through a short-reading (and EINTR-ing) reader. Benign by construction; an `Err` here on an
/// honest artefact is reported by the caller as a liveness failure of the I/O contract.
pub fn wire<T: CanonicalSerialize + CanonicalDeserialize>(x: &T, env: &Env, tag: u64) -> Result<T, String> {
    let c = compress_of(env);
    let plan_w = IoPlan { chunk_seed: if env.io_chunk == 0 { 0 } else { env.io_chunk ^ tag }, ..Default::default() };
    let mut w = FaultyWriter::new(plan_w);
    x.serialize_with_mode(&mut w, c).map_err(|e| format!("serialize: {e}"))?;
    let plan_r = IoPlan {
        chunk_seed: if env.io_chunk == 0 { 0 } else { env.io_chunk.rotate_left(17) ^ tag },
        eintr_every: env.io_eintr,
        ..Default::default()
    };
    let r = FaultyReader::new(&w.buf, plan_r);
    T::deserialize_with_mode(r, c, validate_of(env)).map_err(|e| format!("deserialize: {e}"))
}

pub fn seeded_perm(n: usize, seed: u64) -> Vec<usize> {
    let mut p: Vec<usize> = (0..n).collect();
    if seed == 0 {
        return p;
    }
    let mut s = seed;
    for i in (1..n).rev() {
        s = s.wrapping_mul(6364136223846793005).wrapping_add(1442695040888963407);
        let j = ((s >> 33) as usize) % (i + 1);
        p.swap(i, j);
    }
    p
}

pub struct Prover<S: Scheme> {
    pub ck: Ck<S>,
    pub polys: Vec<LabeledPolynomial<S::F, S::P>>,
    pub comms: Vec<LabeledCommitment<Comm<S>>>,
    pub states: Vec<State<S>>,
    pub sponge: TraceSponge<S::F>,
    pub rng: SimRng,
    /// order in which label-matched calls list (poly, commitment, state)
    pub order: Vec<usize>,
}
pub struct Verifier<S: Scheme> {
    pub vk: Vk<S>,
    /// commitments in arrival order (possibly with a duplicate)
    pub comms: Vec<LabeledCommitment<Comm<S>>>,
    pub sponge: TraceSponge<S::F>,
    pub rng: SimRng,
}

/// The statement + proof of one operation as it travels from prover to verifier.
pub enum Claim<S: Scheme> {
    Open { labels: Vec<String>, point: S::Pt, values: Vec<S::F>, proof: Proof<S> },
    Batch { qs: QuerySet<S::Pt>, evals: Evaluations<S::Pt, S::F>, proof: BatchProof<S> },
    Lc { lcs: Vec<LinearCombination<S::F>>, qs: QuerySet<S::Pt>, evals: Evaluations<S::Pt, S::F>, proof: BatchLCProof<S::F, BatchProof<S>> },
}
impl<S: Scheme> Clone for Claim<S> {
    fn clone(&self) -> Self {
        match self {
            Claim::Open { labels, point, values, proof } => Claim::Open { labels: labels.clone(), point: point.clone(), values: values.clone(), proof: proof.clone() },
            Claim::Batch { qs, evals, proof } => Claim::Batch { qs: qs.clone(), evals: evals.clone(), proof: proof.clone() },
            Claim::Lc { lcs, qs, evals, proof } => Claim::Lc { lcs: lcs.clone(), qs: qs.clone(), evals: evals.clone(), proof: proof.clone() },
        }
    }
}

impl<S: Scheme> Claim<S> {
    /// canonical bytes of the proof part (for "bytes differ" preconditions and digests)
    pub fn proof_bytes(&self) -> Vec<u8> {
        match self {
            Claim::Open { proof, .. } => to_bytes(&BatchProof::<S>::from(vec![proof.clone()]), Compress::Yes),
            Claim::Batch { proof, .. } => to_bytes(proof, Compress::Yes),
            Claim::Lc { proof, .. } => to_bytes(proof, Compress::Yes),
        }
    }
    /// the proof crosses the channel in canonical form
    pub fn through_channel(&self, env: &Env, tag: u64) -> Result<Self, String> {
        Ok(match self {
            Claim::Open { labels, point, values, proof } => {
                let bp: BatchProof<S> = wire(&BatchProof::<S>::from(vec![proof.clone()]), env, tag)?;
                let mut v: Vec<Proof<S>> = bp.into();
                if v.len() != 1 {
                    return Err("single proof did not survive the channel".into());
                }
                Claim::Open { labels: labels.clone(), point: point.clone(), values: wire(values, env, tag ^ 1)?, proof: v.pop().unwrap() }
            }
            Claim::Batch { qs, evals, proof } => Claim::Batch { qs: qs.clone(), evals: evals.clone(), proof: wire(proof, env, tag)? },
            Claim::Lc { lcs, qs, evals, proof } => Claim::Lc { lcs: lcs.clone(), qs: qs.clone(), evals: evals.clone(), proof: wire(proof, env, tag)? },
        })
    }
}

pub struct Sess<'a, S: Scheme> {
    pub scn: &'a Scenario,
    pub log: EventLog,
    pub stats: Stats,
    pub pp_bytes: Vec<u8>,
    pub points: Vec<S::Pt>,
    pub prover: Prover<S>,
    pub verifier: Verifier<S>,
    /// bytes the prover's RNG handed out during `commit`
    pub commit_rng_bytes: u64,
    /// bytes the prover's RNG handed out during the last `prove` step
    pub last_open_rng_bytes: u64,
}

/// Why a session could not be brought up (used by the admission oracles of C04 / C17).
pub enum StartError {
    /// a party step answered Err / aborted: (stage, outcome description)
    Refused(&'static str, String),
    Harness(String),
}

pub fn coeff_of<F: Field + UniformRand>(c: &Coeff, seed: u64) -> F {
    match c {
        Coeff::Zero => F::zero(),
        Coeff::One => F::one(),
        Coeff::MinusOne => -F::one(),
        Coeff::Rand(i) => F::rand(&mut stream(seed, "lc-coeff", *i)),
    }
}

pub fn set_sched(s: &Sched) {
    #[cfg(feature = "shim")]
    rayon::sim::configure(s.rayon_seed, s.threads, s.identity);
    #[cfg(not(feature = "shim"))]
    let _ = s;
}

pub fn hyrax_seed(seed: Option<u64>) {
    #[cfg(feature = "parallel")]
    ark_poly_commit::verif_hooks::set_hyrax_rng_seed(seed);
    #[cfg(not(feature = "parallel"))]
    let _ = seed;
}

impl<'a, S: Scheme> Sess<'a, S> {
    pub fn build_polys(scn: &Scenario) -> Vec<LabeledPolynomial<S::F, S::P>> {
        scn.polys
            .iter()
            .map(|ps| LabeledPolynomial::new(ps.label.clone(), S::P::build(&scn.cfg, ps, scn.seed), ps.degree_bound, ps.hiding))
            .collect()
    }
    pub fn build_points(scn: &Scenario) -> Vec<S::Pt> {
        scn.points.iter().map(|p| S::P::point(&scn.cfg, scn.seed, p.value_id)).collect()
    }

    /// authority -> store -> both parties load and trim -> prover commits -> commitments delivered.
    pub fn start(scn: &'a Scenario, log: &EventLog) -> Result<Self, StartError> {
        let env = &scn.env;
        let cfg = &scn.cfg;
        set_sched(&scn.sched);
        let mut stats = Stats::default();
        log.ev(&format!("start scheme={} seed={}", scn.scheme, scn.seed));

        // --- authority
        let mut rng_auth = SimRng::new(scn.seed, "authority", 0).logged(log);
        let alt = if cfg.lincode.is_some() { step(|| Ok::<_, String>(S::alt_setup(cfg, &mut rng_auth))).ok().flatten() } else { None };
        if alt.is_some() {
            stats.fire("tuning-knobs");
        }
        let pp = match alt {
            Some(pp) => Outcome::Ok(pp),
            None => step(|| PcOf::<S>::setup(cfg.max_degree, cfg.num_vars, &mut rng_auth)),
        };
        let pp = match pp {
            Outcome::Ok(pp) => pp,
            o => return Err(StartError::Refused("setup", o.describe())),
        };
        rng_auth.mark("setup");
        stats.steps += 1;
        let c = compress_of(env);
        let mut w = FaultyWriter::new(IoPlan { chunk_seed: env.io_chunk, ..Default::default() });
        pp.serialize_with_mode(&mut w, c).map_err(|e| StartError::Harness(format!("pp serialize: {e}")))?;
        let pp_bytes = w.buf;
        log.ev(&format!("store pp {}B {}", pp_bytes.len(), short_digest(&pp_bytes)));

        // --- both parties load pp from the store and trim on their own
        let load = |who: u64| -> Result<Pp<S>, String> {
            let r = FaultyReader::new(&pp_bytes, IoPlan { chunk_seed: if env.io_chunk == 0 { 0 } else { env.io_chunk ^ who }, eintr_every: env.io_eintr, ..Default::default() });
            Pp::<S>::deserialize_with_mode(r, c, validate_of(env)).map_err(|e| format!("{e}"))
        };
        let pp_p = load(1).map_err(|e| StartError::Harness(format!("prover cannot load pp: {e}")))?;
        let pp_v = load(2).map_err(|e| StartError::Harness(format!("verifier cannot load pp: {e}")))?;
        if env.io_chunk != 0 {
            stats.fire("short-io");
        }
        if env.io_eintr != 0 {
            stats.fire("eintr-read");
        }
        let bounds_p = cfg.bounds.clone();
        let bounds_v = cfg.bounds.clone().map(|b| {
            if env.verifier_bounds_perm == 0 || b.is_empty() {
                b
            } else {
                let p = seeded_perm(b.len(), env.verifier_bounds_perm);
                let mut o: Vec<usize> = p.iter().map(|&i| b[i]).collect();
                o.push(b[(env.verifier_bounds_perm as usize) % b.len()]);
                o
            }
        });
        if env.verifier_bounds_perm != 0 && cfg.bounds.as_ref().map_or(false, |b| b.len() > 1) {
            stats.fire("bounds-respelled");
        }
        let ck = match step(|| PcOf::<S>::trim(&pp_p, cfg.supported_degree, cfg.supported_hiding, bounds_p.as_deref())) {
            Outcome::Ok((ck, _)) => ck,
            o => return Err(StartError::Refused("trim", o.describe())),
        };
        let vk = match step(|| PcOf::<S>::trim(&pp_v, cfg.supported_degree, cfg.supported_hiding, bounds_v.as_deref())) {
            Outcome::Ok((_, vk)) => vk,
            o => return Err(StartError::Refused("trim-verifier", o.describe())),
        };
        stats.steps += 2;
        log.ev(&format!("trim ck={} vk={}", short_digest(&to_bytes(&ck, Compress::Yes)), short_digest(&to_bytes(&vk, Compress::Yes))));

        // --- prover commits (in its own list order)
        let polys = Self::build_polys(scn);
        let points = Self::build_points(scn);
        let order = seeded_perm(polys.len(), env.prover_perm);
        if order.iter().enumerate().any(|(i, &x)| i != x) {
            stats.fire("reorder-prover");
        }
        let mut rng_p = SimRng::new(scn.seed, "prover", env.prover_rng_stream).logged(log);
        hyrax_seed(Some(mix64(scn.seed, "hyrax-blinders", env.prover_rng_stream)));
        let listed: Vec<&LabeledPolynomial<S::F, S::P>> = order.iter().map(|&i| &polys[i]).collect();
        let committed = step(|| PcOf::<S>::commit(&ck, listed.iter().copied(), Some(&mut rng_p)));
        let (comms_o, states_o) = match committed {
            Outcome::Ok(x) => x,
            o => return Err(StartError::Refused("commit", o.describe())),
        };
        let commit_rng_bytes = rng_p.mark("commit");
        stats.steps += 1;
        if comms_o.len() != polys.len() || states_o.len() != polys.len() {
            return Err(StartError::Refused("commit", format!("returned {} commitments for {} polynomials", comms_o.len(), polys.len())));
        }
        // back to scenario order
        let mut comms: Vec<Option<LabeledCommitment<Comm<S>>>> = (0..polys.len()).map(|_| None).collect();
        let mut states: Vec<Option<State<S>>> = (0..polys.len()).map(|_| None).collect();
        for ((c, s), &i) in comms_o.into_iter().zip(states_o).zip(order.iter()) {
            comms[i] = Some(c);
            states[i] = Some(s);
        }
        let comms: Vec<_> = comms.into_iter().map(|c| c.unwrap()).collect();
        let states: Vec<_> = states.into_iter().map(|c| c.unwrap()).collect();
        for c in &comms {
            log.ev(&format!("commit {} bound={:?} {}", c.label(), c.degree_bound(), short_digest(&to_bytes(c.commitment(), Compress::Yes))));
        }

        // --- commitments travel to the verifier (serialized), arriving in its own order
        let arrive = seeded_perm(comms.len(), env.verifier_perm);
        if arrive.iter().enumerate().any(|(i, &x)| i != x) {
            stats.fire("reorder-verifier");
        }
        let mut v_comms = vec![];
        for (k, &i) in arrive.iter().enumerate() {
            let c = &comms[i];
            let got: Comm<S> = wire(c.commitment(), env, 100 + k as u64).map_err(|e| StartError::Harness(format!("commitment lost on the channel: {e}")))?;
            v_comms.push(LabeledCommitment::new(c.label().clone(), got, c.degree_bound()));
        }
        if env.verifier_dup && !v_comms.is_empty() {
            let d = v_comms[(env.verifier_perm as usize) % v_comms.len()].clone();
            v_comms.push(d);
            stats.fire("duplicate-commitment");
        }

        let mut sp = TraceSponge::<S::F>::fresh();
        for i in 0..env.sponge_preabsorb {
            sp.absorb(&mix(scn.seed, "preabsorb", i as u64).to_vec());
        }
        let sv = sp.fork();
        let prover = Prover { ck, polys, comms, states, sponge: sp, rng: rng_p, order };
        let verifier = Verifier { vk, comms: v_comms, sponge: sv, rng: SimRng::new(scn.seed, "verifier", 0).logged(log) };
        Ok(Sess { scn, log: log.clone(), stats, pp_bytes, points, prover, verifier, commit_rng_bytes, last_open_rng_bytes: 0 })
    }

    /// ground truth of the reference model
    pub fn truth(&self, poly: usize, point: usize) -> S::F {
        self.prover.polys[poly].polynomial().eval_ref(&self.points[point])
    }

    pub fn lc_truth(&self, lc: &LcSpec, point: usize) -> S::F {
        let mut acc = S::F::zero();
        for (c, t) in &lc.terms {
            let c: S::F = coeff_of(c, self.scn.seed);
            acc += c * match t {
                None => S::F::one(),
                Some(i) => self.truth(*i, point),
            };
        }
        acc
    }

    pub fn build_lc(&self, lc: &LcSpec) -> LinearCombination<S::F> {
        let mut out = LinearCombination::empty(lc.label.clone());
        for (c, t) in &lc.terms {
            let c: S::F = coeff_of(c, self.scn.seed);
            out.push((c, match t {
                None => LCTerm::One,
                Some(i) => LCTerm::PolyLabel(self.scn.polys[*i].label.clone()),
            }));
        }
        out
    }

    pub fn query_set(&self, queries: &[(usize, usize)], label_of: impl Fn(usize) -> String) -> QuerySet<S::Pt> {
        let mut qs = QuerySet::new();
        for &(p, z) in queries {
            qs.insert((label_of(p), (self.scn.points[z].label.clone(), self.points[z].clone())));
        }
        qs
    }

    /// The honest statement of operation `op` (values from the reference model).
    pub fn statement(&self, op: &Op) -> (QuerySet<S::Pt>, Evaluations<S::Pt, S::F>) {
        match op {
            Op::Open { .. } => (QuerySet::new(), Evaluations::new()),
            Op::Batch { queries } => {
                let qs = self.query_set(queries, |p| self.scn.polys[p].label.clone());
                let mut ev = Evaluations::new();
                for &(p, z) in queries {
                    ev.insert((self.scn.polys[p].label.clone(), self.points[z].clone()), self.truth(p, z));
                }
                (qs, ev)
            }
            Op::Lc { lcs, queries } => {
                let qs = self.query_set(queries, |l| lcs[l].label.clone());
                let mut ev = Evaluations::new();
                for &(l, z) in queries {
                    ev.insert((lcs[l].label.clone(), self.points[z].clone()), self.lc_truth(&lcs[l], z));
                }
                (qs, ev)
            }
        }
    }

    /// Prover step for one operation: produces the claim with the honest statement.
    pub fn prove(&mut self, op: &Op, tag: u64) -> Outcome<Claim<S>> {
        self.stats.steps += 1;
        let (qs, evals) = self.statement(op);
        let pr = &mut self.prover;
        let out = Self::prove_on(self.scn, &self.points, &pr.ck, &pr.polys, &pr.comms, &pr.states, &pr.order, op, qs, evals, &mut pr.sponge, Some(&mut pr.rng));
        self.last_open_rng_bytes = pr.rng.mark("open");
        self.log.ev(&format!("prove op{} -> {} sponge={}", tag, out.kind(), pr.sponge.state_digest()));
        out
    }

    /// The library prover on explicit inputs (so that a byzantine prover can run it on lists that
    /// do not belong together). Values of `Open` claims come from the reference model.
    pub fn prove_on(
        scn: &Scenario,
        points: &[S::Pt],
        ck: &Ck<S>,
        polys: &[LabeledPolynomial<S::F, S::P>],
        comms: &[LabeledCommitment<Comm<S>>],
        states: &[State<S>],
        order: &[usize],
        op: &Op,
        qs: QuerySet<S::Pt>,
        evals: Evaluations<S::Pt, S::F>,
        sponge: &mut TraceSponge<S::F>,
        rng: Option<&mut SimRng>,
    ) -> Outcome<Claim<S>> {
        let rng: Option<&mut dyn ark_std::rand::RngCore> = match rng {
            Some(r) => Some(r),
            None => None,
        };
        match op {
            Op::Open { polys: idx, point } => {
                let ps: Vec<_> = idx.iter().map(|&i| &polys[i]).collect();
                let cs: Vec<_> = idx.iter().map(|&i| &comms[i]).collect();
                let ss: Vec<_> = idx.iter().map(|&i| &states[i]).collect();
                let z = &points[*point];
                let values: Vec<S::F> = idx.iter().map(|&i| polys[i].polynomial().eval_ref(z)).collect();
                let labels = idx.iter().map(|&i| scn.polys[i].label.clone()).collect();
                match step(|| PcOf::<S>::open(ck, ps, cs, z, sponge, ss, rng)) {
                    Outcome::Ok(proof) => Outcome::Ok(Claim::Open { labels, point: z.clone(), values, proof }),
                    Outcome::Err(e) => Outcome::Err(e),
                    Outcome::Abort(e) => Outcome::Abort(e),
                }
            }
            Op::Batch { .. } => {
                let ps: Vec<_> = order.iter().map(|&i| &polys[i]).collect();
                let cs: Vec<_> = order.iter().map(|&i| &comms[i]).collect();
                let ss: Vec<_> = order.iter().map(|&i| &states[i]).collect();
                match step(|| PcOf::<S>::batch_open(ck, ps, cs, &qs, sponge, ss, rng)) {
                    Outcome::Ok(proof) => Outcome::Ok(Claim::Batch { qs, evals, proof }),
                    Outcome::Err(e) => Outcome::Err(e),
                    Outcome::Abort(e) => Outcome::Abort(e),
                }
            }
            Op::Lc { lcs, .. } => {
                let built: Vec<LinearCombination<S::F>> = lcs
                    .iter()
                    .map(|l| {
                        let mut out = LinearCombination::empty(l.label.clone());
                        for (c, t) in &l.terms {
                            let c: S::F = coeff_of(c, scn.seed);
                            out.push((c, match t {
                                None => LCTerm::One,
                                Some(i) => LCTerm::PolyLabel(scn.polys[*i].label.clone()),
                            }));
                        }
                        out
                    })
                    .collect();
                // the prover lists its LCs in its own order too
                let lc_order = seeded_perm(built.len(), scn.env.prover_perm.rotate_left(7));
                let listed: Vec<&LinearCombination<S::F>> = lc_order.iter().map(|&i| &built[i]).collect();
                let ps: Vec<_> = order.iter().map(|&i| &polys[i]).collect();
                let cs: Vec<_> = order.iter().map(|&i| &comms[i]).collect();
                let ss: Vec<_> = order.iter().map(|&i| &states[i]).collect();
                match step(|| PcOf::<S>::open_combinations(ck, listed, ps, cs, &qs, sponge, ss, rng)) {
                    Outcome::Ok(proof) => Outcome::Ok(Claim::Lc { lcs: built, qs, evals, proof }),
                    Outcome::Err(e) => Outcome::Err(e),
                    Outcome::Abort(e) => Outcome::Abort(e),
                }
            }
        }
    }

    /// Verifier step on an explicit sponge / rng (so that replicas and re-deliveries are possible).
    pub fn check_with(
        vk: &Vk<S>,
        comms: &[LabeledCommitment<Comm<S>>],
        claim: &Claim<S>,
        sponge: &mut TraceSponge<S::F>,
        rng: &mut SimRng,
        lc_perm: u64,
    ) -> (Decision, String) {
        match claim {
            Claim::Open { labels, point, values, proof } => {
                // positional: pick the commitments by label in the order of the claim
                let mut cs = vec![];
                for l in labels {
                    match comms.iter().find(|c| c.label() == l) {
                        Some(c) => cs.push(c),
                        None => return (Decision::Error, format!("verifier has no commitment labelled {l}")),
                    }
                }
                decide(|| PcOf::<S>::check(vk, cs, point, values.clone(), proof, sponge, Some(rng)))
            }
            Claim::Batch { qs, evals, proof } => decide(|| PcOf::<S>::batch_check(vk, comms, qs, evals, proof, sponge, rng)),
            Claim::Lc { lcs, qs, evals, proof } => {
                let order = seeded_perm(lcs.len(), lc_perm);
                let listed: Vec<&LinearCombination<S::F>> = order.iter().map(|&i| &lcs[i]).collect();
                decide(|| PcOf::<S>::check_combinations(vk, listed, comms, qs, evals, proof, sponge, rng))
            }
        }
    }

    /// Transactional verification on the verifier's own sponge: works on a fork, adopts on accept.
    pub fn verify(&mut self, claim: &Claim<S>, tag: u64) -> (Decision, String) {
        self.stats.steps += 1;
        self.stats.checks += 1;
        let mut sp = self.verifier.sponge.fork();
        let lc_perm = self.scn.env.verifier_perm.rotate_left(11);
        let (d, why) = Self::check_with(&self.verifier.vk, &self.verifier.comms, claim, &mut sp, &mut self.verifier.rng, lc_perm);
        self.verifier.rng.mark("check");
        if d.accepted() {
            self.verifier.sponge = sp;
        }
        self.log.ev(&format!("verify op{} -> {} {} sponge={}", tag, d.name(), trunc(&why, 80), self.verifier.sponge.state_digest()));
        (d, why)
    }

    /// Non-adopting verification on a scratch fork (used for faulted deliveries).
    pub fn verify_scratch(&mut self, claim: &Claim<S>, rng_stream: u64) -> (Decision, String) {
        self.stats.checks += 1;
        let mut sp = self.verifier.sponge.fork();
        let mut rng = SimRng::new(self.scn.seed, "verifier-scratch", rng_stream);
        let lc_perm = self.scn.env.verifier_perm.rotate_left(11);
        Self::check_with(&self.verifier.vk, &self.verifier.comms, claim, &mut sp, &mut rng, lc_perm)
    }

    /// crash + recovery of the prover from its durable bytes
    pub fn restart_prover(&mut self) -> Result<(), String> {
        let env = &self.scn.env;
        let pr = &mut self.prover;
        pr.ck = wire(&pr.ck, env, 900)?;
        for (i, p) in pr.polys.iter_mut().enumerate() {
            *p = wire(p, env, 910 + i as u64)?;
        }
        for (i, s) in pr.states.iter_mut().enumerate() {
            *s = wire(s, env, 940 + i as u64)?;
        }
        for (i, c) in pr.comms.iter_mut().enumerate() {
            let got: Comm<S> = wire(c.commitment(), env, 970 + i as u64)?;
            *c = LabeledCommitment::new(c.label().clone(), got, c.degree_bound());
        }
        pr.sponge = restore_sponge(&pr.sponge);
        self.stats.fire("restart-prover");
        self.log.ev("restart prover");
        Ok(())
    }
    pub fn restart_verifier(&mut self) -> Result<(), String> {
        let env = &self.scn.env;
        let v = &mut self.verifier;
        v.vk = wire(&v.vk, env, 800)?;
        for (i, c) in v.comms.iter_mut().enumerate() {
            let got: Comm<S> = wire(c.commitment(), env, 810 + i as u64)?;
            *c = LabeledCommitment::new(c.label().clone(), got, c.degree_bound());
        }
        v.sponge = restore_sponge(&v.sponge);
        self.stats.fire("restart-verifier");
        self.log.ev("restart verifier");
        Ok(())
    }
}

/// The sponge's durable form is its public (state, mode); rebuild a sponge from it.
pub fn restore_sponge<SF: ark_ff::PrimeField>(s: &TraceSponge<SF>) -> TraceSponge<SF> {
    use ark_crypto_primitives::sponge::poseidon::PoseidonSponge;
    let bytes: Vec<u8> = {
        let mut b = vec![];
        s.inner.state.serialize_compressed(&mut b).unwrap();
        b
    };
    let state: Vec<SF> = Vec::<SF>::deserialize_compressed(&bytes[..]).unwrap();
    let inner = PoseidonSponge { parameters: poseidon_config(), state, mode: s.inner.mode.clone() };
    let mut out = s.fork();
    out.inner = inner;
    out
}
