//! C10 — small, independent, naive evaluators of each scheme's verification relation with the
//! same challenge derivation from the transcript (DESIGN.md §3.8): individual pairings instead of
//! `multi_pairing`, sums of scalar multiplications instead of MSM, coefficient expansion instead of
//! `SuccinctCheckPolynomial`, own tensor code. Same interface as `check`, trivial inside.
use crate::schemes::{CH, MT};
use crate::seams::TraceSponge;
use crate::surgery::{to_mirror, LcCommMirror, LcProofMirror};
use ark_crypto_primitives::{crh::CRHScheme, sponge::{CryptographicSponge, FieldElementSize}};
use ark_ec::{pairing::Pairing, AffineRepr, CurveGroup};
use ark_ff::{Field, One, PrimeField, Zero};
use ark_poly::Polynomial;
use ark_poly_commit::{
    hyrax::{HyraxCommitment, HyraxProof, HyraxVerifierKey},
    ipa_pc, kzg10,
    linear_codes::{LinCodeParametersInfo, LinearEncode},
    marlin_pc, marlin_pst13_pc, sonic_pc, LabeledCommitment,
};
use ark_serialize::CanonicalSerialize;
use blake2::Blake2s256;
use digest::Digest;
use std::ops::Mul;

fn challenge<F: PrimeField>(sp: &mut TraceSponge<F>) -> F {
    sp.squeeze_field_elements_with_sizes::<F>(&[FieldElementSize::Truncated(128)])[0]
}

// --------------------------------------------------------------------------------------------- KZG family

pub fn marlin_ref<E: Pairing>(
    vk: &marlin_pc::VerifierKey<E>,
    comms: &[&LabeledCommitment<marlin_pc::Commitment<E>>],
    z: &E::ScalarField,
    values: &[E::ScalarField],
    proof: &kzg10::Proof<E>,
    sp: &mut TraceSponge<E::ScalarField>,
) -> bool {
    let mut c = E::G1::zero();
    let mut v = E::ScalarField::zero();
    for (lc, val) in comms.iter().zip(values.iter()) {
        let cm = lc.commitment();
        if lc.degree_bound().is_some() != cm.shifted_comm.is_some() {
            return false;
        }
        let xi: E::ScalarField = challenge(sp);
        c += cm.comm.0.mul(xi);
        v += *val * xi;
        if let Some(d) = lc.degree_bound() {
            let xi1: E::ScalarField = challenge(sp);
            let Some(shift) = vk.degree_bounds_and_shift_powers.as_ref().and_then(|l| l.iter().find(|(b, _)| *b == d)).map(|x| x.1) else { return false };
            let adjusted = cm.shifted_comm.unwrap().0.into_group() - shift.mul(*val);
            c += adjusted.mul(xi1);
        }
    }
    // e(C - v g - rv gamma_g, h) * e(-W, beta h - z h) == 1
    let mut inner = c - vk.vk.g.mul(v);
    if let Some(rv) = proof.random_v {
        inner -= vk.vk.gamma_g.mul(rv);
    }
    let rhs_g2 = vk.vk.beta_h.into_group() - vk.vk.h.mul(*z);
    (E::pairing(inner, vk.vk.h) + E::pairing(-proof.w.into_group(), rhs_g2)).is_zero()
}

pub fn sonic_ref<E: Pairing>(
    vk: &sonic_pc::VerifierKey<E>,
    comms: &[&LabeledCommitment<kzg10::Commitment<E>>],
    z: &E::ScalarField,
    values: &[E::ScalarField],
    proof: &kzg10::Proof<E>,
    sp: &mut TraceSponge<E::ScalarField>,
) -> bool {
    // prod_d e(sum_{i with bound d} xi_i C_i, beta^{-(D-d)} h) == e(g * sum xi_i v_i - z W + rv gamma_g, h) * e(W, beta h)
    let mut xi: E::ScalarField = challenge(sp);
    let mut acc = ark_ec::pairing::PairingOutput::<E>::zero();
    let mut v = E::ScalarField::zero();
    for (lc, val) in comms.iter().zip(values.iter()) {
        v += *val * xi;
        let g2: E::G2Affine = match lc.degree_bound() {
            None => vk.h,
            Some(d) => {
                let Some(p) = vk.degree_bounds_and_neg_powers_of_h.as_ref().and_then(|l| l.iter().find(|(b, _)| *b == d)).map(|x| x.1) else { return false };
                p
            }
        };
        acc += E::pairing(lc.commitment().0.mul(xi), g2);
        xi = challenge(sp);
    }
    let mut adjusted = vk.g.mul(v) - proof.w.mul(*z);
    if let Some(rv) = proof.random_v {
        adjusted += vk.gamma_g.mul(rv);
    }
    acc == E::pairing(adjusted, vk.h) + E::pairing(proof.w, vk.beta_h)
}

pub fn pst13_ref<E: Pairing>(
    vk: &marlin_pst13_pc::VerifierKey<E>,
    comms: &[&LabeledCommitment<marlin_pc::Commitment<E>>],
    z: &Vec<E::ScalarField>,
    values: &[E::ScalarField],
    proof: &marlin_pst13_pc::Proof<E>,
    sp: &mut TraceSponge<E::ScalarField>,
) -> bool {
    let mut c = E::G1::zero();
    let mut v = E::ScalarField::zero();
    for (lc, val) in comms.iter().zip(values.iter()) {
        if lc.degree_bound().is_some() || lc.commitment().shifted_comm.is_some() {
            return false;
        }
        let xi: E::ScalarField = challenge(sp);
        c += lc.commitment().comm.0.mul(xi);
        v += *val * xi;
    }
    if proof.w.len() != vk.num_vars || z.len() != vk.num_vars || vk.beta_h.len() != vk.num_vars {
        return false;
    }
    let mut inner = c - vk.g.mul(v);
    if let Some(rv) = proof.random_v {
        inner -= vk.gamma_g.mul(rv);
    }
    let mut rhs = ark_ec::pairing::PairingOutput::<E>::zero();
    for j in 0..vk.num_vars {
        rhs += E::pairing(proof.w[j], vk.beta_h[j].into_group() - vk.h.mul(z[j]));
    }
    E::pairing(inner, vk.h) == rhs
}

// --------------------------------------------------------------------------------------------- IPA

pub fn ro_challenge<F: PrimeField>(bytes: &[u8]) -> F {
    let mut i = 0u64;
    loop {
        let mut inp = bytes.to_vec();
        inp.extend(i.to_le_bytes());
        let h = Blake2s256::digest(&inp);
        if let Some(c) = F::from_random_bytes(&h) {
            return c;
        }
        i += 1;
    }
}
pub fn ser<T: CanonicalSerialize>(b: &mut Vec<u8>, x: &T) {
    x.serialize_uncompressed(&mut *b).unwrap();
}

pub fn ipa_ref<G: AffineRepr>(
    vk: &ipa_pc::VerifierKey<G>,
    comms: &[&LabeledCommitment<ipa_pc::Commitment<G>>],
    z: &G::ScalarField,
    values: &[G::ScalarField],
    proof: &ipa_pc::Proof<G>,
    sp: &mut TraceSponge<G::ScalarField>,
) -> bool {
    let d = vk.comm_key.len() - 1;
    let log_d = (usize::BITS - d.leading_zeros()) as usize; // ceil(log2(d+1)) for d+1 a power of two
    if (1usize << log_d) != d + 1 || proof.l_vec.len() != log_d || proof.r_vec.len() != log_d {
        return false;
    }
    let mut c = G::Group::zero();
    let mut v = G::ScalarField::zero();
    let mut cur: G::ScalarField = challenge(sp);
    for (lc, val) in comms.iter().zip(values.iter()) {
        let cm = lc.commitment();
        v += cur * val;
        c += cm.comm.mul(cur);
        cur = challenge(sp);
        if lc.degree_bound().is_some() != cm.shifted_comm.is_some() {
            return false;
        }
        if let Some(b) = lc.degree_bound() {
            if b > d {
                return false;
            }
            let shift = z.pow([(d - b) as u64]);
            v += cur * val * shift;
            c += cm.shifted_comm.unwrap().mul(cur);
        }
        cur = challenge(sp);
    }
    if proof.hiding_comm.is_some() != proof.rand.is_some() {
        return false;
    }
    if let (Some(hc), Some(rand)) = (proof.hiding_comm, proof.rand) {
        let mut b = vec![];
        ser(&mut b, &c.into_affine());
        ser(&mut b, z);
        ser(&mut b, &v);
        ser(&mut b, &hc);
        let hch: G::ScalarField = ro_challenge(&b);
        c += hc.mul(hch) - vk.s.mul(rand);
    }
    let mut b = vec![];
    ser(&mut b, &c.into_affine());
    ser(&mut b, z);
    ser(&mut b, &v);
    let mut rc: G::ScalarField = ro_challenge(&b);
    let h_prime = vk.h.mul(rc);
    let mut round = c + h_prime.mul(v);
    let mut us = vec![];
    for (l, r) in proof.l_vec.iter().zip(proof.r_vec.iter()) {
        let mut b = vec![];
        ser(&mut b, &rc);
        ser(&mut b, l);
        ser(&mut b, r);
        rc = ro_challenge(&b);
        let Some(inv) = rc.inverse() else { return false };
        us.push(rc);
        round += l.mul(inv) + r.mul(rc);
    }
    // h(X) = prod_i (1 + u_i X^{2^{k-i}}), expanded coefficient by coefficient
    let mut coeffs = vec![G::ScalarField::one()];
    for (i, u) in us.iter().enumerate() {
        let step = 1usize << (log_d - 1 - i);
        // multiply by (1 + u X^step)
        let mut out = vec![G::ScalarField::zero(); (coeffs.len() - 1) + step + 1];
        for (j, cj) in coeffs.iter().enumerate() {
            out[j] += *cj;
            out[j + step] += *cj * u;
        }
        coeffs = out;
    }
    if coeffs.len() != d + 1 {
        return false;
    }
    let mut hz = G::ScalarField::zero();
    for cj in coeffs.iter().rev() {
        hz = hz * z + cj;
    }
    // round commitment == c * U + c * h(z) * h'   and   U == <coeffs(h), G>
    let want = proof.final_comm_key.mul(proof.c) + h_prime.mul(proof.c * hz);
    if round != want {
        return false;
    }
    let mut u_key = G::Group::zero();
    for (g, cj) in vk.comm_key.iter().zip(coeffs.iter()) {
        u_key += g.mul(*cj);
    }
    u_key.into_affine() == proof.final_comm_key
}

// --------------------------------------------------------------------------------------------- Hyrax

/// EQ tensor with values[0] as the most significant index bit
fn eq_tensor<F: Field>(values: &[F]) -> Vec<F> {
    let n = values.len();
    (0..1usize << n)
        .map(|i| {
            let mut w = F::one();
            for (k, val) in values.iter().enumerate() {
                if (i >> (n - 1 - k)) & 1 == 1 {
                    w *= val;
                } else {
                    w *= F::one() - val;
                }
            }
            w
        })
        .collect()
}

pub fn hyrax_ref<G: AffineRepr>(
    vk: &HyraxVerifierKey<G>,
    comms: &[&LabeledCommitment<HyraxCommitment<G>>],
    z: &Vec<G::ScalarField>,
    values: &[G::ScalarField],
    proof: &Vec<HyraxProof<G>>,
    sp: &mut TraceSponge<G::ScalarField>,
) -> bool
where
    G::ScalarField: ark_crypto_primitives::sponge::Absorb,
{
    let n = z.len();
    if n % 2 == 1 || proof.len() != comms.len() || values.len() != comms.len() {
        return false;
    }
    let dim = 1usize << (n / 2);
    // point reversed; lower half of the reversed point drives the rows, upper half the columns
    let rev: Vec<G::ScalarField> = z.iter().rev().cloned().collect();
    let l = eq_tensor(&rev[n / 2..]);
    let r = eq_tensor(&rev[..n / 2]);
    for ((lc, pr), val) in comms.iter().zip(proof.iter()).zip(values.iter()) {
        let rows = &lc.commitment().row_coms;
        if rows.len() != dim || pr.z.len() != dim || vk.com_key.len() != dim {
            return false;
        }
        // the transcript carries the uncompressed encodings (ark_serialize::serialize_to_vec!)
        let mut b = vec![];
        vk.serialize_uncompressed(&mut b).unwrap();
        sp.absorb(&b);
        let mut b = vec![];
        rows.serialize_uncompressed(&mut b).unwrap();
        sp.absorb(&b);
        sp.absorb(z);
        for x in [&pr.com_eval, &pr.com_d, &pr.com_b] {
            let mut b = vec![];
            x.serialize_uncompressed(&mut b).unwrap();
            sp.absorb(&b);
        }
        let c: G::ScalarField = sp.squeeze_field_elements(1)[0];
        // the evaluation commitment opens to the claimed value
        if pr.com_eval.into_group() != vk.com_key[0].mul(*val) + vk.h.mul(pr.r_eval) {
            return false;
        }
        // (14): <R, z> G_0 + z_b h == c com_eval + com_b
        let rz: G::ScalarField = r.iter().zip(pr.z.iter()).map(|(a, b)| *a * b).sum();
        if vk.com_key[0].mul(rz) + vk.h.mul(pr.z_b) != pr.com_eval.mul(c) + pr.com_b.into_group() {
            return false;
        }
        // (13): <z, G> + z_d h == c T' + com_d,  T' = sum_i L_i row_i
        let mut t = G::Group::zero();
        for (li, row) in l.iter().zip(rows.iter()) {
            t += row.mul(*li);
        }
        let mut zg = G::Group::zero();
        for (zi, g) in pr.z.iter().zip(vk.com_key.iter()) {
            zg += g.mul(*zi);
        }
        if zg + vk.h.mul(pr.z_d) != t.mul(c) + pr.com_d.into_group() {
            return false;
        }
    }
    true
}

// --------------------------------------------------------------------------------------------- Ligero / Brakedown

pub fn lincode_ref<F, P, L, C, T>(
    vk: &L::LinCodePCParams,
    comms: &[&LabeledCommitment<C>],
    z: &P::Point,
    values: &[F],
    proof: &T,
    sp: &mut TraceSponge<F>,
) -> bool
where
    F: PrimeField + ark_crypto_primitives::sponge::Absorb,
    P: Polynomial<F>,
    L: LinearEncode<F, MT, P, CH<F>>,
    C: ark_poly_commit::PCCommitment,
    T: CanonicalSerialize,
{
    let Some(m): Option<Vec<LcProofMirror<F, MT>>> = to_mirror(proof) else { return false };
    if m.len() != comms.len() || values.len() != comms.len() {
        return false;
    }
    let wf = vk.check_well_formedness();
    let dot = |a: &[F], b: &[F]| -> F { a.iter().zip(b.iter()).map(|(x, y)| *x * y).sum() };
    for ((lc, pr), val) in comms.iter().zip(m.iter()).zip(values.iter()) {
        let Some(cm): Option<LcCommMirror<MT>> = to_mirror(lc.commitment()) else { return false };
        let Some(t) = crate::lincode::calculate_t::<F>(vk.sec_param(), vk.distance(), cm.n_ext_cols) else { return false };
        // shape dictated by the commitment metadata
        if pr.v.len() != cm.n_cols || pr.columns.len() != t || pr.paths.len() != t || pr.columns.iter().any(|c| c.len() != cm.n_rows) {
            return false;
        }
        let rb = ark_poly_commit::to_bytes!(&cm.root).unwrap();
        sp.absorb(&rb);
        let mut r = vec![];
        if wf {
            let Some(w) = &pr.well_formedness else { return false };
            if w.len() != cm.n_cols {
                return false;
            }
            r = sp.squeeze_field_elements::<F>(cm.n_rows);
            sp.absorb(w);
        }
        sp.absorb(&L::point_to_vec(z.clone()));
        sp.absorb(&pr.v);
        let idx = crate::lincode::indices_from_sponge(cm.n_ext_cols, t, sp);
        let Ok(w) = L::encode(&pr.v, vk) else { return false };
        let w_wf = if wf {
            match L::encode(pr.well_formedness.as_ref().unwrap(), vk) {
                Ok(x) => x,
                Err(_) => return false,
            }
        } else {
            vec![]
        };
        let (a, b) = L::tensor(z, cm.n_cols, cm.n_rows);
        for (j, &q) in idx.iter().enumerate() {
            if pr.paths[j].leaf_index != q {
                return false;
            }
            let leaf: Vec<u8> = <CH<F> as CRHScheme>::evaluate(vk.col_hash_params(), pr.columns[j].clone()).unwrap();
            // Merkle authentication must be TRUE
            match pr.paths[j].verify(vk.leaf_hash_param(), vk.two_to_one_hash_param(), &cm.root, leaf) {
                Ok(true) => {}
                _ => return false,
            }
            if wf && dot(&r, &pr.columns[j]) != w_wf[q] {
                return false;
            }
            if dot(&b, &pr.columns[j]) != w[q] {
                return false;
            }
        }
        if dot(&pr.v, &a) != *val {
            return false;
        }
    }
    true
}

// --------------------------------------------------------------------------------------------- bespoke schemes

/// raw KZG10, one proof per commitment: e(C - v g - rv gamma_g, h) == e(W, beta h - z h)
pub fn kzg_ref<E: Pairing>(
    vk: &kzg10::VerifierKey<E>,
    comms: &[&LabeledCommitment<kzg10::Commitment<E>>],
    z: &E::ScalarField,
    values: &[E::ScalarField],
    proof: &Vec<kzg10::Proof<E>>,
) -> bool {
    if comms.len() != values.len() || comms.len() != proof.len() {
        return false;
    }
    for ((c, v), p) in comms.iter().zip(values.iter()).zip(proof.iter()) {
        let mut inner = c.commitment().0.into_group() - vk.g.mul(*v);
        if let Some(rv) = p.random_v {
            inner -= vk.gamma_g.mul(rv);
        }
        if E::pairing(inner, vk.h) != E::pairing(p.w, vk.beta_h.into_group() - vk.h.mul(*z)) {
            return false;
        }
    }
    true
}

/// multilinear PST: e(C - v g, h) == sum_i e(g_mask_i - z_i g, pi_i)
pub fn mlpc_ref<E: Pairing>(
    vk: &ark_poly_commit::multilinear_pc::data_structures::VerifierKey<E>,
    comms: &[&LabeledCommitment<crate::adapters::MlComm<E>>],
    z: &Vec<E::ScalarField>,
    values: &[E::ScalarField],
    proof: &Vec<ark_poly_commit::multilinear_pc::data_structures::Proof<E>>,
) -> bool {
    if comms.len() != values.len() || comms.len() != proof.len() {
        return false;
    }
    for ((c, v), p) in comms.iter().zip(values.iter()).zip(proof.iter()) {
        if p.proofs.len() != vk.nv || z.len() != vk.nv || vk.g_mask_random.len() != vk.nv {
            return false;
        }
        let left = E::pairing(c.commitment().0.g_product.into_group() - vk.g.mul(*v), vk.h);
        let mut right = ark_ec::pairing::PairingOutput::<E>::zero();
        for i in 0..vk.nv {
            right += E::pairing(vk.g_mask_random[i].into_group() - vk.g.mul(z[i]), p.proofs[i]);
        }
        if left != right {
            return false;
        }
    }
    true
}
