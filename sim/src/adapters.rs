//! Thin adapters that put the two bespoke (non-trait) schemes — raw `KZG10` and `MultilinearPC` —
//! behind the `PolynomialCommitment` interface so that every session driver reaches them.
//! The adapters are harness code (stub layer): they only route calls; all cryptography is the
//! library's `KZG10::{setup,commit,open,check,batch_check}` and
//! `MultilinearPC::{setup,trim,commit,open,check}`.
use ark_crypto_primitives::sponge::CryptographicSponge;
use ark_ec::pairing::Pairing;
use ark_poly::{univariate::DensePolynomial, DenseMultilinearExtension, MultilinearExtension};
use ark_poly_commit::{
    kzg10::{self, KZG10},
    multilinear_pc::{self, data_structures as ml, MultilinearPC},
    Error, Evaluations, LabeledCommitment, LabeledPolynomial, PCCommitment, PCCommitmentState, PCCommitterKey,
    PCUniversalParams, PCVerifierKey, PolynomialCommitment, QuerySet,
};
use ark_serialize::{CanonicalDeserialize, CanonicalSerialize};
use ark_std::rand::RngCore;
use std::collections::{BTreeMap, BTreeSet};
use std::marker::PhantomData;

// --------------------------------------------------------------------------------------------- KZG10

pub struct Kzg10Adapter<E: Pairing>(PhantomData<E>);

#[derive(CanonicalSerialize, CanonicalDeserialize)]
pub struct KCk<E: Pairing> {
    pub powers_of_g: Vec<E::G1Affine>,
    pub powers_of_gamma_g: Vec<E::G1Affine>,
    pub max_degree: usize,
}
impl<E: Pairing> Clone for KCk<E> {
    fn clone(&self) -> Self {
        KCk { powers_of_g: self.powers_of_g.clone(), powers_of_gamma_g: self.powers_of_gamma_g.clone(), max_degree: self.max_degree }
    }
}
impl<E: Pairing> std::fmt::Debug for KCk<E> {
    fn fmt(&self, f: &mut std::fmt::Formatter<'_>) -> std::fmt::Result {
        write!(f, "KCk({} powers)", self.powers_of_g.len())
    }
}
impl<E: Pairing> KCk<E> {
    pub fn powers(&self) -> kzg10::Powers<'_, E> {
        kzg10::Powers { powers_of_g: self.powers_of_g.as_slice().into(), powers_of_gamma_g: self.powers_of_gamma_g.as_slice().into() }
    }
}
impl<E: Pairing> PCCommitterKey for KCk<E> {
    fn max_degree(&self) -> usize {
        self.max_degree
    }
    fn supported_degree(&self) -> usize {
        self.powers_of_g.len() - 1
    }
}
#[derive(CanonicalSerialize, CanonicalDeserialize)]
pub struct KVk<E: Pairing> {
    pub vk: kzg10::VerifierKey<E>,
    pub supported_degree: usize,
    pub max_degree: usize,
}
impl<E: Pairing> Clone for KVk<E> {
    fn clone(&self) -> Self {
        KVk { vk: self.vk.clone(), supported_degree: self.supported_degree, max_degree: self.max_degree }
    }
}
impl<E: Pairing> std::fmt::Debug for KVk<E> {
    fn fmt(&self, f: &mut std::fmt::Formatter<'_>) -> std::fmt::Result {
        write!(f, "KVk")
    }
}
impl<E: Pairing> PCVerifierKey for KVk<E> {
    fn max_degree(&self) -> usize {
        self.max_degree
    }
    fn supported_degree(&self) -> usize {
        self.supported_degree
    }
}

type UP<F> = DensePolynomial<F>;

impl<E: Pairing> PolynomialCommitment<E::ScalarField, UP<E::ScalarField>> for Kzg10Adapter<E> {
    type UniversalParams = kzg10::UniversalParams<E>;
    type CommitterKey = KCk<E>;
    type VerifierKey = KVk<E>;
    type Commitment = kzg10::Commitment<E>;
    type CommitmentState = kzg10::Randomness<E::ScalarField, UP<E::ScalarField>>;
    /// one raw KZG10 proof per opened polynomial
    type Proof = Vec<kzg10::Proof<E>>;
    type BatchProof = Vec<Self::Proof>;
    type Error = Error;

    fn setup<R: RngCore>(max_degree: usize, _: Option<usize>, rng: &mut R) -> Result<Self::UniversalParams, Error> {
        KZG10::<E, UP<E::ScalarField>>::setup(max_degree, false, rng)
    }

    fn trim(pp: &Self::UniversalParams, supported_degree: usize, supported_hiding_bound: usize, _bounds: Option<&[usize]>) -> Result<(KCk<E>, KVk<E>), Error> {
        let max_degree = pp.max_degree();
        if supported_degree > max_degree {
            return Err(Error::TrimmingDegreeTooLarge);
        }
        let powers_of_g = pp.powers_of_g[..=supported_degree].to_vec();
        let mut powers_of_gamma_g = vec![];
        for i in 0..=supported_hiding_bound + 1 {
            powers_of_gamma_g.push(*pp.powers_of_gamma_g.get(&i).ok_or(Error::HidingBoundToolarge { hiding_poly_degree: supported_hiding_bound + 1, num_powers: pp.powers_of_gamma_g.len() })?);
        }
        let vk = kzg10::VerifierKey {
            g: pp.powers_of_g[0],
            gamma_g: pp.powers_of_gamma_g[&0],
            h: pp.h,
            beta_h: pp.beta_h,
            prepared_h: pp.prepared_h.clone(),
            prepared_beta_h: pp.prepared_beta_h.clone(),
        };
        Ok((KCk { powers_of_g, powers_of_gamma_g, max_degree }, KVk { vk, supported_degree, max_degree }))
    }

    fn commit<'a>(
        ck: &KCk<E>,
        polynomials: impl IntoIterator<Item = &'a LabeledPolynomial<E::ScalarField, UP<E::ScalarField>>>,
        rng: Option<&mut dyn RngCore>,
    ) -> Result<(Vec<LabeledCommitment<Self::Commitment>>, Vec<Self::CommitmentState>), Error> {
        let mut rng = rng;
        let mut cs = vec![];
        let mut ss = vec![];
        for p in polynomials {
            if let Some(b) = p.degree_bound() {
                return Err(Error::UnsupportedDegreeBound(b));
            }
            let r: Option<&mut dyn RngCore> = match rng.as_mut() {
                Some(r) => Some(&mut **r),
                None => None,
            };
            let (c, s) = KZG10::<E, UP<E::ScalarField>>::commit(&ck.powers(), p.polynomial(), p.hiding_bound(), r)?;
            cs.push(LabeledCommitment::new(p.label().clone(), c, None));
            ss.push(s);
        }
        Ok((cs, ss))
    }

    fn open<'a>(
        ck: &KCk<E>,
        labeled_polynomials: impl IntoIterator<Item = &'a LabeledPolynomial<E::ScalarField, UP<E::ScalarField>>>,
        _commitments: impl IntoIterator<Item = &'a LabeledCommitment<Self::Commitment>>,
        point: &'a E::ScalarField,
        _sponge: &mut impl CryptographicSponge,
        states: impl IntoIterator<Item = &'a Self::CommitmentState>,
        _rng: Option<&mut dyn RngCore>,
    ) -> Result<Self::Proof, Error>
    where
        Self::CommitmentState: 'a,
        Self::Commitment: 'a,
    {
        let mut out = vec![];
        for (p, s) in labeled_polynomials.into_iter().zip(states) {
            out.push(KZG10::<E, UP<E::ScalarField>>::open(&ck.powers(), p.polynomial(), *point, s)?);
        }
        Ok(out)
    }

    fn check<'a>(
        vk: &KVk<E>,
        commitments: impl IntoIterator<Item = &'a LabeledCommitment<Self::Commitment>>,
        point: &'a E::ScalarField,
        values: impl IntoIterator<Item = E::ScalarField>,
        proof: &Self::Proof,
        _sponge: &mut impl CryptographicSponge,
        _rng: Option<&mut dyn RngCore>,
    ) -> Result<bool, Error>
    where
        Self::Commitment: 'a,
    {
        let cs: Vec<_> = commitments.into_iter().collect();
        let vs: Vec<_> = values.into_iter().collect();
        if cs.len() != vs.len() || cs.len() != proof.len() {
            return Err(Error::IncorrectInputLength(format!("{} commitments, {} values, {} proofs", cs.len(), vs.len(), proof.len())));
        }
        let mut all = true;
        for ((c, v), p) in cs.iter().zip(vs.iter()).zip(proof.iter()) {
            all &= KZG10::<E, UP<E::ScalarField>>::check(&vk.vk, c.commitment(), *point, *v, p)?;
        }
        Ok(all)
    }

    /// one call of the library's randomized `KZG10::batch_check` over all (polynomial, point) queries
    fn batch_check<'a, R: RngCore>(
        vk: &KVk<E>,
        commitments: impl IntoIterator<Item = &'a LabeledCommitment<Self::Commitment>>,
        query_set: &QuerySet<E::ScalarField>,
        evaluations: &Evaluations<E::ScalarField, E::ScalarField>,
        proof: &Self::BatchProof,
        _sponge: &mut impl CryptographicSponge,
        rng: &mut R,
    ) -> Result<bool, Error>
    where
        Self::Commitment: 'a,
    {
        let commitments: BTreeMap<_, _> = commitments.into_iter().map(|c| (c.label(), c)).collect();
        let mut groups: BTreeMap<&String, (&E::ScalarField, BTreeSet<&String>)> = BTreeMap::new();
        for (label, (point_label, point)) in query_set.iter() {
            groups.entry(point_label).or_insert((point, BTreeSet::new())).1.insert(label);
        }
        // The adapter only flattens: the statement lists (commitments, points, values) come from the
        // query set, the proof list is whatever was delivered. Whether their lengths agree is for
        // `KZG10::batch_check` to decide, not for harness code.
        let (mut cs, mut zs, mut vs) = (vec![], vec![], vec![]);
        for (_, (point, labels)) in groups.into_iter() {
            for l in labels.into_iter() {
                let c = commitments.get(l).ok_or(Error::MissingPolynomial { label: l.to_string() })?;
                let v = evaluations.get(&(l.clone(), *point)).ok_or(Error::MissingEvaluation { label: l.to_string() })?;
                cs.push(c.commitment().clone());
                zs.push(*point);
                vs.push(*v);
            }
        }
        let ps: Vec<_> = proof.iter().flat_map(|g| g.iter().cloned()).collect();
        KZG10::<E, UP<E::ScalarField>>::batch_check(&vk.vk, &cs, &zs, &vs, &ps, rng)
    }
}

// --------------------------------------------------------------------------------------------- MultilinearPC

pub struct MlpcAdapter<E: Pairing>(PhantomData<E>);

#[derive(CanonicalSerialize, CanonicalDeserialize, Clone, Debug)]
pub struct MlPp<E: Pairing>(pub ml::UniversalParams<E>);
impl<E: Pairing> PCUniversalParams for MlPp<E> {
    fn max_degree(&self) -> usize {
        self.0.num_vars
    }
}
#[derive(CanonicalSerialize, CanonicalDeserialize, Clone, Debug)]
pub struct MlCk<E: Pairing>(pub ml::CommitterKey<E>);
impl<E: Pairing> PCCommitterKey for MlCk<E> {
    fn max_degree(&self) -> usize {
        self.0.nv
    }
    fn supported_degree(&self) -> usize {
        self.0.nv
    }
}
#[derive(CanonicalSerialize, CanonicalDeserialize, Clone, Debug)]
pub struct MlVk<E: Pairing>(pub ml::VerifierKey<E>);
impl<E: Pairing> PCVerifierKey for MlVk<E> {
    fn max_degree(&self) -> usize {
        self.0.nv
    }
    fn supported_degree(&self) -> usize {
        self.0.nv
    }
}
#[derive(CanonicalSerialize, CanonicalDeserialize, Clone, Debug)]
pub struct MlComm<E: Pairing>(pub ml::Commitment<E>);
impl<E: Pairing> Default for MlComm<E> {
    fn default() -> Self {
        use ark_ec::AffineRepr;
        MlComm(ml::Commitment { nv: 0, g_product: E::G1Affine::zero() })
    }
}
impl<E: Pairing> PCCommitment for MlComm<E> {
    fn empty() -> Self {
        Self::default()
    }
    fn has_degree_bound(&self) -> bool {
        false
    }
}
#[derive(CanonicalSerialize, CanonicalDeserialize, Clone, Debug, Default)]
pub struct NoState;
impl PCCommitmentState for NoState {
    type Randomness = ();
    fn empty() -> Self {
        NoState
    }
    fn rand<R: RngCore>(_: usize, _: bool, _: Option<usize>, _: &mut R) -> Self::Randomness {}
}

type MLP<F> = DenseMultilinearExtension<F>;

impl<E: Pairing> PolynomialCommitment<E::ScalarField, MLP<E::ScalarField>> for MlpcAdapter<E> {
    type UniversalParams = MlPp<E>;
    type CommitterKey = MlCk<E>;
    type VerifierKey = MlVk<E>;
    type Commitment = MlComm<E>;
    type CommitmentState = NoState;
    type Proof = Vec<multilinear_pc::data_structures::Proof<E>>;
    type BatchProof = Vec<Self::Proof>;
    type Error = Error;

    /// `max_degree` carries the number of variables of the universal parameters (>= `num_vars`, the
    /// arity the keys are later trimmed to)
    fn setup<R: RngCore>(max_degree: usize, num_vars: Option<usize>, rng: &mut R) -> Result<MlPp<E>, Error> {
        let nv = num_vars.ok_or(Error::InvalidNumberOfVariables)?;
        Ok(MlPp(MultilinearPC::<E>::setup(if nv == 0 { 0 } else { nv.max(max_degree) }, rng)))
    }
    /// `supported_degree` carries the supported number of variables
    fn trim(pp: &MlPp<E>, supported_degree: usize, _: usize, _: Option<&[usize]>) -> Result<(MlCk<E>, MlVk<E>), Error> {
        let (ck, vk) = MultilinearPC::<E>::trim(&pp.0, supported_degree);
        Ok((MlCk(ck), MlVk(vk)))
    }
    fn commit<'a>(
        ck: &MlCk<E>,
        polynomials: impl IntoIterator<Item = &'a LabeledPolynomial<E::ScalarField, MLP<E::ScalarField>>>,
        _rng: Option<&mut dyn RngCore>,
    ) -> Result<(Vec<LabeledCommitment<MlComm<E>>>, Vec<NoState>), Error> {
        let mut cs = vec![];
        let mut ss = vec![];
        for p in polynomials {
            cs.push(LabeledCommitment::new(p.label().clone(), MlComm(MultilinearPC::<E>::commit(&ck.0, p.polynomial())), None));
            ss.push(NoState);
        }
        Ok((cs, ss))
    }
    fn open<'a>(
        ck: &MlCk<E>,
        labeled_polynomials: impl IntoIterator<Item = &'a LabeledPolynomial<E::ScalarField, MLP<E::ScalarField>>>,
        _commitments: impl IntoIterator<Item = &'a LabeledCommitment<MlComm<E>>>,
        point: &'a Vec<E::ScalarField>,
        _sponge: &mut impl CryptographicSponge,
        _states: impl IntoIterator<Item = &'a NoState>,
        _rng: Option<&mut dyn RngCore>,
    ) -> Result<Self::Proof, Error>
    where
        MlComm<E>: 'a,
    {
        Ok(labeled_polynomials.into_iter().map(|p| MultilinearPC::<E>::open(&ck.0, p.polynomial(), point)).collect())
    }
    fn check<'a>(
        vk: &MlVk<E>,
        commitments: impl IntoIterator<Item = &'a LabeledCommitment<MlComm<E>>>,
        point: &'a Vec<E::ScalarField>,
        values: impl IntoIterator<Item = E::ScalarField>,
        proof: &Self::Proof,
        _sponge: &mut impl CryptographicSponge,
        _rng: Option<&mut dyn RngCore>,
    ) -> Result<bool, Error>
    where
        MlComm<E>: 'a,
    {
        let cs: Vec<_> = commitments.into_iter().collect();
        let vs: Vec<_> = values.into_iter().collect();
        if cs.len() != vs.len() || cs.len() != proof.len() {
            return Err(Error::IncorrectInputLength(format!("{} commitments, {} values, {} proofs", cs.len(), vs.len(), proof.len())));
        }
        let mut all = true;
        for ((c, v), p) in cs.iter().zip(vs.iter()).zip(proof.iter()) {
            all &= MultilinearPC::<E>::check(&vk.0, &c.commitment().0, point, *v, p);
        }
        Ok(all)
    }
}

pub fn poly_nv<F: ark_ff::Field>(p: &DenseMultilinearExtension<F>) -> usize {
    p.num_vars()
}
