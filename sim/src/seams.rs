//! The seams the simulator owns (DESIGN.md §1.2): per-party RNG streams, the traced Fiat–Shamir
//! sponge, faulty I/O endpoints and the event log. Nothing in here reads a clock or OS entropy.
use ark_crypto_primitives::sponge::{
    poseidon::{PoseidonConfig, PoseidonSponge},
    Absorb, CryptographicSponge, FieldElementSize,
};
use ark_ff::PrimeField;
use ark_std::rand::{RngCore, SeedableRng};
use blake2::{Blake2s256, Digest};
use rand_chacha::ChaCha20Rng;
use std::cell::RefCell;
use std::io::{self, Read, Write};
use std::rc::Rc;

// The sponge works over the scheme's own scalar field (as in the crate's tests): absorbing an
// element of another field into a Poseidon sponge aborts inside ark-crypto-primitives.

// ---------------------------------------------------------------------------------------------
// Seed derivation: every random choice is `stream(run_seed, name, index)`.

pub fn mix(seed: u64, name: &str, index: u64) -> [u8; 32] {
    let mut h = Blake2s256::new();
    h.update(b"pcsim-stream-v1");
    h.update(seed.to_le_bytes());
    h.update((name.len() as u64).to_le_bytes());
    h.update(name.as_bytes());
    h.update(index.to_le_bytes());
    h.finalize().into()
}

pub fn mix64(seed: u64, name: &str, index: u64) -> u64 {
    let b = mix(seed, name, index);
    u64::from_le_bytes(b[..8].try_into().unwrap())
}

/// Plain (uncounted) stream for workload generation.
pub fn stream(seed: u64, name: &str, index: u64) -> ChaCha20Rng {
    ChaCha20Rng::from_seed(mix(seed, name, index))
}

// ---------------------------------------------------------------------------------------------
// Event log: every decision, delivery, fault, seam event and verdict; hashed incrementally.

#[derive(Clone)]
pub struct EventLog {
    inner: Rc<RefCell<LogInner>>,
}
struct LogInner {
    hasher: Blake2s256,
    n: u64,
    keep: bool,
    lines: Vec<String>,
}
impl EventLog {
    pub fn new(keep: bool) -> Self {
        EventLog { inner: Rc::new(RefCell::new(LogInner { hasher: Blake2s256::new(), n: 0, keep, lines: vec![] })) }
    }
    pub fn ev(&self, s: &str) {
        let mut l = self.inner.borrow_mut();
        l.n += 1;
        l.hasher.update((s.len() as u64).to_le_bytes());
        l.hasher.update(s.as_bytes());
        if l.keep {
            let n = l.n;
            l.lines.push(format!("{:05} {}", n, s));
        }
    }
    pub fn count(&self) -> u64 {
        self.inner.borrow().n
    }
    pub fn digest(&self) -> String {
        let l = self.inner.borrow();
        hex(&l.hasher.clone().finalize())
    }
    pub fn lines(&self) -> Vec<String> {
        self.inner.borrow().lines.clone()
    }
}

pub fn hex(b: &[u8]) -> String {
    b.iter().map(|x| format!("{:02x}", x)).collect()
}
pub fn short_digest(b: &[u8]) -> String {
    hex(&Blake2s256::digest(b)[..8])
}

// ---------------------------------------------------------------------------------------------
// RNG seam: ChaCha20 keyed by (run seed, stream name, index); counts what each call draws.

pub struct SimRng {
    inner: ChaCha20Rng,
    pub bytes: u64,
    pub calls: u64,
    pub name: String,
    /// stuck-at fault: return constant bytes instead of the stream (used by C07 sensitivity only)
    log: Option<EventLog>,
}
impl SimRng {
    pub fn new(seed: u64, name: &str, index: u64) -> Self {
        SimRng { inner: stream(seed, name, index), bytes: 0, calls: 0, name: format!("{name}#{index}"), log: None }
    }
    pub fn logged(mut self, log: &EventLog) -> Self {
        self.log = Some(log.clone());
        self
    }
    /// report (and reset) the number of bytes drawn since the last mark
    pub fn mark(&mut self, what: &str) -> u64 {
        let b = self.bytes;
        if let Some(l) = &self.log {
            l.ev(&format!("rng {} {} bytes={} calls={}", self.name, what, self.bytes, self.calls));
        }
        self.bytes = 0;
        self.calls = 0;
        b
    }
}
impl RngCore for SimRng {
    fn next_u32(&mut self) -> u32 {
        self.bytes += 4;
        self.calls += 1;
        self.inner.next_u32()
    }
    fn next_u64(&mut self) -> u64 {
        self.bytes += 8;
        self.calls += 1;
        self.inner.next_u64()
    }
    fn fill_bytes(&mut self, d: &mut [u8]) {
        self.bytes += d.len() as u64;
        self.calls += 1;
        self.inner.fill_bytes(d)
    }
    fn try_fill_bytes(&mut self, d: &mut [u8]) -> Result<(), ark_std::rand::Error> {
        self.fill_bytes(d);
        Ok(())
    }
}

// ---------------------------------------------------------------------------------------------
// Sponge seam: delegates every trait method to Poseidon and records (op, size, digest).

#[derive(Clone, Debug, PartialEq, Eq)]
pub struct SpongeEv {
    pub op: &'static str,
    pub size: usize,
    pub digest: String,
}

pub struct TraceSponge<SF: PrimeField> {
    pub inner: PoseidonSponge<SF>,
    pub trace: Rc<RefCell<Vec<SpongeEv>>>,
    /// fault knob (sensitivity / C11 "sponge diverged"): nothing here by default
    pub squeezed_fe: Rc<RefCell<Vec<Vec<u8>>>>,
    /// field elements squeezed from copies the *library* made of this sponge with `Clone` (the
    /// harness snapshots with `fork`): public data an adversary can compute as well. Shared between
    /// a sponge and its clones, recording only - never compared between parties.
    pub clone_sq: Rc<RefCell<Vec<Vec<u8>>>>,
    pub is_clone: bool,
}
impl<SF: PrimeField> Clone for TraceSponge<SF> {
    fn clone(&self) -> Self {
        let mut c = self.fork();
        c.clone_sq = self.clone_sq.clone();
        c.is_clone = true;
        c
    }
}
impl<SF: PrimeField> TraceSponge<SF> {
    pub fn fresh() -> Self {
        <Self as CryptographicSponge>::new(&poseidon_config())
    }
    /// deep copy: the clone gets its own trace (std Clone shares the Rc on purpose for the library,
    /// which never clones the sponge; parties that snapshot use `fork`)
    pub fn fork(&self) -> Self {
        TraceSponge {
            inner: self.inner.clone(),
            trace: Rc::new(RefCell::new(self.trace.borrow().clone())),
            squeezed_fe: Rc::new(RefCell::new(self.squeezed_fe.borrow().clone())),
            clone_sq: Default::default(),
            is_clone: false,
        }
    }
    pub fn state_bytes(&self) -> Vec<u8> {
        use ark_serialize::CanonicalSerialize;
        let mut b = vec![];
        for s in &self.inner.state {
            s.serialize_compressed(&mut b).unwrap();
        }
        match &self.inner.mode {
            ark_crypto_primitives::sponge::DuplexSpongeMode::Absorbing { next_absorb_index } => {
                b.push(0);
                b.extend((*next_absorb_index as u64).to_le_bytes())
            }
            ark_crypto_primitives::sponge::DuplexSpongeMode::Squeezing { next_squeeze_index } => {
                b.push(1);
                b.extend((*next_squeeze_index as u64).to_le_bytes())
            }
        }
        b
    }
    pub fn state_digest(&self) -> String {
        short_digest(&self.state_bytes())
    }
    pub fn trace_len(&self) -> usize {
        self.trace.borrow().len()
    }
    pub fn shape(&self) -> Vec<(&'static str, usize)> {
        self.trace.borrow().iter().map(|e| (e.op, e.size)).collect()
    }
    fn rec(&self, op: &'static str, size: usize, data: &[u8]) {
        self.trace.borrow_mut().push(SpongeEv { op, size, digest: short_digest(data) });
    }
}
impl<SF: PrimeField> CryptographicSponge for TraceSponge<SF> {
    type Config = PoseidonConfig<SF>;
    fn new(p: &Self::Config) -> Self {
        TraceSponge { inner: PoseidonSponge::new(p), trace: Default::default(), squeezed_fe: Default::default(), clone_sq: Default::default(), is_clone: false }
    }
    fn absorb(&mut self, input: &impl Absorb) {
        let b = input.to_sponge_bytes_as_vec();
        self.rec("absorb", b.len(), &b);
        self.inner.absorb(input)
    }
    fn squeeze_bytes(&mut self, n: usize) -> Vec<u8> {
        let out = self.inner.squeeze_bytes(n);
        self.rec("sq_bytes", n, &out);
        out
    }
    fn squeeze_bits(&mut self, n: usize) -> Vec<bool> {
        let out = self.inner.squeeze_bits(n);
        self.rec("sq_bits", n, &out.iter().map(|b| *b as u8).collect::<Vec<_>>());
        out
    }
    fn squeeze_field_elements_with_sizes<F: PrimeField>(&mut self, sizes: &[FieldElementSize]) -> Vec<F> {
        let out: Vec<F> = self.inner.squeeze_field_elements_with_sizes(sizes);
        let mut b = vec![];
        for x in &out {
            ark_serialize::CanonicalSerialize::serialize_compressed(x, &mut b).unwrap();
        }
        self.squeezed_fe.borrow_mut().push(b.clone());
        if self.is_clone {
            self.clone_sq.borrow_mut().push(b.clone());
        }
        self.rec("sq_fe_sized", sizes.len(), &b);
        out
    }
    fn squeeze_field_elements<F: PrimeField>(&mut self, n: usize) -> Vec<F> {
        let out: Vec<F> = self.inner.squeeze_field_elements(n);
        let mut b = vec![];
        for x in &out {
            ark_serialize::CanonicalSerialize::serialize_compressed(x, &mut b).unwrap();
        }
        self.squeezed_fe.borrow_mut().push(b.clone());
        if self.is_clone {
            self.clone_sq.borrow_mut().push(b.clone());
        }
        self.rec("sq_fe", n, &b);
        out
    }
}

/// Same shape as the crate's `poseidon_parameters_for_test` (which is `#[cfg(test)]`): rate 2,
/// capacity 1, 8 full / 31 partial rounds, alpha 17; round constants from a fixed stream.
pub fn poseidon_config<SF: PrimeField>() -> PoseidonConfig<SF> {
    let mut rng = ChaCha20Rng::seed_from_u64(0x706f736569646f6e);
    let mds = vec![
        vec![SF::one(), SF::zero(), SF::one()],
        vec![SF::one(), SF::one(), SF::zero()],
        vec![SF::zero(), SF::one(), SF::one()],
    ];
    let ark = (0..39).map(|_| (0..3).map(|_| SF::rand(&mut rng)).collect()).collect();
    PoseidonConfig::new(8, 31, 17, mds, ark, 2, 1)
}

// ---------------------------------------------------------------------------------------------
// I/O seam: in-memory endpoints with scripted faults.

#[derive(Clone, Debug, Default)]
pub struct IoPlan {
    /// seed for chunk sizes (short reads/writes); 0 = full-size transfers
    pub chunk_seed: u64,
    /// every n-th call answers ErrorKind::Interrupted (0 = never)
    pub eintr_every: u32,
    /// hard error (EIO/ENOSPC) once this many bytes were transferred
    pub fail_at: Option<usize>,
    /// reader only: EOF after this many bytes (truncated / torn artefact)
    pub eof_at: Option<usize>,
}

#[derive(Default, Clone, Debug)]
pub struct IoStats {
    pub calls: u64,
    pub short: u64,
    pub eintr: u64,
    pub hard: u64,
    pub eof: u64,
}

pub struct FaultyWriter {
    pub buf: Vec<u8>,
    plan: IoPlan,
    state: u64,
    pub stats: IoStats,
}
impl FaultyWriter {
    pub fn new(plan: IoPlan) -> Self {
        let state = plan.chunk_seed;
        FaultyWriter { buf: vec![], plan, state, stats: IoStats::default() }
    }
}
fn lcg(s: &mut u64) -> u64 {
    *s = s.wrapping_mul(6364136223846793005).wrapping_add(1442695040888963407);
    *s >> 33
}
impl Write for FaultyWriter {
    fn write(&mut self, b: &[u8]) -> io::Result<usize> {
        self.stats.calls += 1;
        if b.is_empty() {
            return Ok(0);
        }
        if self.plan.eintr_every > 0 && self.stats.calls % self.plan.eintr_every as u64 == 0 {
            self.stats.eintr += 1;
            return Err(io::ErrorKind::Interrupted.into());
        }
        let mut n = b.len();
        if self.plan.chunk_seed != 0 {
            n = 1 + (lcg(&mut self.state) as usize % b.len().min(9));
        }
        if let Some(k) = self.plan.fail_at {
            if self.buf.len() >= k {
                self.stats.hard += 1;
                return Err(io::Error::new(io::ErrorKind::Other, "simulated ENOSPC/EIO"));
            }
            n = n.min(k - self.buf.len());
        }
        if n < b.len() {
            self.stats.short += 1;
        }
        self.buf.extend_from_slice(&b[..n]);
        Ok(n)
    }
    fn flush(&mut self) -> io::Result<()> {
        Ok(())
    }
}

pub struct FaultyReader<'a> {
    data: &'a [u8],
    pub pos: usize,
    plan: IoPlan,
    state: u64,
    pub stats: IoStats,
}
impl<'a> FaultyReader<'a> {
    pub fn new(data: &'a [u8], plan: IoPlan) -> Self {
        let state = plan.chunk_seed;
        FaultyReader { data, pos: 0, plan, state, stats: IoStats::default() }
    }
}
impl<'a> Read for FaultyReader<'a> {
    fn read(&mut self, b: &mut [u8]) -> io::Result<usize> {
        self.stats.calls += 1;
        if b.is_empty() {
            return Ok(0);
        }
        if self.plan.eintr_every > 0 && self.stats.calls % self.plan.eintr_every as u64 == 0 {
            self.stats.eintr += 1;
            return Err(io::ErrorKind::Interrupted.into());
        }
        if let Some(k) = self.plan.fail_at {
            if self.pos >= k {
                self.stats.hard += 1;
                return Err(io::Error::new(io::ErrorKind::Other, "simulated EIO"));
            }
        }
        let mut lim = self.data.len();
        if let Some(k) = self.plan.eof_at {
            lim = lim.min(k);
        }
        if let Some(k) = self.plan.fail_at {
            lim = lim.min(k);
        }
        let avail = lim.saturating_sub(self.pos);
        if avail == 0 {
            self.stats.eof += 1;
            return Ok(0);
        }
        let mut n = b.len().min(avail);
        if self.plan.chunk_seed != 0 {
            n = n.min(1 + (lcg(&mut self.state) as usize % 9));
        }
        if n < b.len() {
            self.stats.short += 1;
        }
        b[..n].copy_from_slice(&self.data[self.pos..self.pos + n]);
        self.pos += n;
        Ok(n)
    }
}

// ---------------------------------------------------------------------------------------------
// Abort = crash: party steps run under catch_unwind; the panic message is kept for the log.

thread_local! {
    static LAST_PANIC: RefCell<Option<String>> = RefCell::new(None);
}

pub fn install_panic_hook() {
    std::panic::set_hook(Box::new(|info| {
        let msg = if let Some(s) = info.payload().downcast_ref::<&str>() {
            s.to_string()
        } else if let Some(s) = info.payload().downcast_ref::<String>() {
            s.clone()
        } else {
            "<non-string panic>".to_string()
        };
        let loc = info.location().map(|l| format!("{}:{}", l.file(), l.line())).unwrap_or_default();
        if std::env::var_os("PCSIM_DEBUG_PANICS").is_some() {
            eprintln!("panic: {} @ {}", msg.lines().next().unwrap_or(""), loc);
        }
        LAST_PANIC.with(|p| *p.borrow_mut() = Some(format!("{} @ {}", msg.lines().next().unwrap_or(""), loc)));
    }));
}

#[derive(Debug, Clone, PartialEq, Eq)]
pub enum Outcome<T> {
    Ok(T),
    Err(String),
    Abort(String),
}
impl<T> Outcome<T> {
    pub fn kind(&self) -> &'static str {
        match self {
            Outcome::Ok(_) => "ok",
            Outcome::Err(_) => "err",
            Outcome::Abort(_) => "abort",
        }
    }
    pub fn ok(self) -> Option<T> {
        match self {
            Outcome::Ok(t) => Some(t),
            _ => None,
        }
    }
    pub fn is_ok(&self) -> bool {
        matches!(self, Outcome::Ok(_))
    }
    pub fn describe(&self) -> String {
        match self {
            Outcome::Ok(_) => "ok".into(),
            Outcome::Err(e) => format!("err({})", trunc(e, 90)),
            Outcome::Abort(e) => format!("abort({})", trunc(e, 90)),
        }
    }
}
pub fn trunc(s: &str, n: usize) -> String {
    if s.len() <= n {
        s.to_string()
    } else {
        let mut e = n;
        while !s.is_char_boundary(e) {
            e -= 1;
        }
        format!("{}…", &s[..e])
    }
}

/// Run one party step; a panic is a crash of that party.
pub fn step<T, E: std::fmt::Display>(f: impl FnOnce() -> Result<T, E>) -> Outcome<T> {
    match std::panic::catch_unwind(std::panic::AssertUnwindSafe(f)) {
        Ok(Ok(t)) => Outcome::Ok(t),
        Ok(Err(e)) => Outcome::Err(format!("{e}")),
        Err(_) => Outcome::Abort(LAST_PANIC.with(|p| p.borrow_mut().take()).unwrap_or_default()),
    }
}

/// verification decision of a party step: accepted only on Ok(true)
#[derive(Clone, Copy, Debug, PartialEq, Eq)]
pub enum Decision {
    Accept,
    Reject,
    Error,
    Abort,
}
impl Decision {
    pub fn accepted(self) -> bool {
        self == Decision::Accept
    }
    pub fn name(self) -> &'static str {
        match self {
            Decision::Accept => "accept",
            Decision::Reject => "false",
            Decision::Error => "err",
            Decision::Abort => "abort",
        }
    }
}
pub fn decide<E: std::fmt::Display>(f: impl FnOnce() -> Result<bool, E>) -> (Decision, String) {
    match step(f) {
        Outcome::Ok(true) => (Decision::Accept, String::new()),
        Outcome::Ok(false) => (Decision::Reject, String::new()),
        Outcome::Err(e) => (Decision::Error, e),
        Outcome::Abort(e) => (Decision::Abort, e),
    }
}
