//! A run is data (DESIGN.md §2.1): the generator turns a run seed into a `Scenario`; the executor
//! is a pure function of (scenario, code). Replay files are scenarios.
use serde::{Deserialize, Serialize};

#[derive(Serialize, Deserialize, Clone, Debug, PartialEq)]
pub struct Scenario {
    pub property: String,
    pub scheme: String,
    /// run seed: every stream of the executor is derived from it
    pub seed: u64,
    pub cfg: KeyCfg,
    pub polys: Vec<PolySpec>,
    pub points: Vec<PointSpec>,
    pub ops: Vec<Op>,
    pub faults: Vec<Fault>,
    pub sched: Sched,
    pub env: Env,
}

#[derive(Serialize, Deserialize, Clone, Debug, PartialEq)]
pub struct KeyCfg {
    pub max_degree: usize,
    pub num_vars: Option<usize>,
    pub supported_degree: usize,
    pub supported_hiding: usize,
    /// enforced degree bounds exactly as the prover spells them (unsorted, duplicated, empty, None)
    pub bounds: Option<Vec<usize>>,
    /// linear-code tuning knobs: parameters built through the public constructors instead of
    /// `setup`'s defaults (None = the defaults)
    #[serde(default)]
    pub lincode: Option<LcKnobs>,
}

#[derive(Serialize, Deserialize, Clone, Debug, PartialEq)]
pub struct LcKnobs {
    pub check_well_formedness: bool,
    pub sec_param: usize,
    pub rho_inv: usize,
}

#[derive(Serialize, Deserialize, Clone, Debug, PartialEq)]
pub enum Shape {
    Zero,
    Const,
    Dense,
    /// lowest-order `k` coefficients are zero (univariate) / first k evaluations zero (multilinear)
    LowZeros(usize),
    /// only `k` non-zero coefficients / evaluations / terms
    Sparse(usize),
    /// multivariate only: sum of univariate polynomials (what `SparsePolynomial::rand` gives)
    UniSum,
}

#[derive(Serialize, Deserialize, Clone, Debug, PartialEq)]
pub struct PolySpec {
    pub label: String,
    pub shape: Shape,
    /// exact degree (univariate), total degree cap (multivariate); ignored for multilinear
    pub degree: usize,
    pub degree_bound: Option<usize>,
    pub hiding: Option<usize>,
    /// stream index for the coefficients
    pub coeff_id: u64,
}

#[derive(Serialize, Deserialize, Clone, Debug, PartialEq)]
pub struct PointSpec {
    pub label: String,
    /// several labels may share one value id (== one point value)
    pub value_id: u32,
}

#[derive(Serialize, Deserialize, Clone, Debug, PartialEq)]
pub enum Coeff {
    Zero,
    One,
    MinusOne,
    Rand(u64),
}

#[derive(Serialize, Deserialize, Clone, Debug, PartialEq)]
pub struct LcSpec {
    pub label: String,
    /// (coefficient, Some(poly index) | None for the constant term `One`)
    pub terms: Vec<(Coeff, Option<usize>)>,
}

#[derive(Serialize, Deserialize, Clone, Debug, PartialEq)]
pub enum Op {
    /// single `open`/`check` of the listed polynomials (positional) at one point
    Open { polys: Vec<usize>, point: usize },
    /// `batch_open`/`batch_check` over (poly index, point index) queries
    Batch { queries: Vec<(usize, usize)> },
    /// `open_combinations`/`check_combinations`
    Lc { lcs: Vec<LcSpec>, queries: Vec<(usize, usize)> },
}

#[derive(Serialize, Deserialize, Clone, Debug, PartialEq, Default)]
pub struct Fault {
    /// fault kind (catalogue of DESIGN.md §2.3), e.g. "value+delta", "proof-elem", "reorder"
    pub kind: String,
    /// operation of the history the fault is placed in
    pub op: usize,
    /// target component inside the operation (position, label index, element index, byte offset)
    pub target: usize,
    /// second target / parameter
    pub aux: usize,
    /// stream index for any randomness the fault needs
    pub param: u64,
}

#[derive(Serialize, Deserialize, Clone, Debug, PartialEq)]
pub struct Sched {
    pub rayon_seed: u64,
    pub threads: usize,
    pub identity: bool,
}

#[derive(Serialize, Deserialize, Clone, Debug, PartialEq)]
pub struct Env {
    /// artefacts cross the store / channel compressed?
    pub compress: bool,
    /// receiver validates on deserialization?
    pub validate: bool,
    /// seed for short reads / writes on store and channel (0 = none)
    pub io_chunk: u64,
    /// EINTR every n-th read (0 = none)
    pub io_eintr: u32,
    /// permutation of the prover's (poly, commitment, state) lists in label-matched calls
    pub prover_perm: u64,
    /// independent permutation (+ duplicates) of the verifier's commitment list
    pub verifier_perm: u64,
    pub verifier_dup: bool,
    /// verifier spells the enforced-bound list differently (permuted, duplicated)
    pub verifier_bounds_perm: u64,
    /// crash/restart points: party restarts from durable bytes before these op indices
    pub restart_prover_before: Vec<usize>,
    pub restart_verifier_before: Vec<usize>,
    /// data absorbed into both sponges before the history starts
    pub sponge_preabsorb: u32,
    /// index of the prover's RNG stream (C07 fork tests run the same session under another stream)
    #[serde(default)]
    pub prover_rng_stream: u64,
}

impl Default for Env {
    fn default() -> Self {
        Env {
            compress: true,
            validate: true,
            io_chunk: 0,
            io_eintr: 0,
            prover_perm: 0,
            verifier_perm: 0,
            verifier_dup: false,
            verifier_bounds_perm: 0,
            restart_prover_before: vec![],
            restart_verifier_before: vec![],
            sponge_preabsorb: 0,
            prover_rng_stream: 0,
        }
    }
}

impl Scenario {
    /// Structural sanity after shrinking: indices in range, at least one poly/point/op.
    pub fn is_well_formed(&self) -> bool {
        if self.polys.is_empty() || self.points.is_empty() || self.ops.is_empty() {
            return false;
        }
        let np = self.polys.len();
        let nz = self.points.len();
        for op in &self.ops {
            match op {
                Op::Open { polys, point } => {
                    if polys.is_empty() || polys.iter().any(|&i| i >= np) || *point >= nz {
                        return false;
                    }
                }
                Op::Batch { queries } => {
                    if queries.is_empty() || queries.iter().any(|&(p, z)| p >= np || z >= nz) {
                        return false;
                    }
                }
                Op::Lc { lcs, queries } => {
                    if lcs.is_empty() || queries.is_empty() {
                        return false;
                    }
                    for lc in lcs {
                        if lc.terms.is_empty() || lc.terms.iter().any(|(_, t)| t.map_or(false, |i| i >= np)) {
                            return false;
                        }
                    }
                    if queries.iter().any(|&(l, z)| l >= lcs.len() || z >= nz) {
                        return false;
                    }
                }
            }
        }
        self.faults.iter().all(|f| f.op < self.ops.len())
    }

    /// short human-readable summary used in evidence samples
    pub fn summary(&self) -> serde_json::Value {
        serde_json::json!({
            "scheme": self.scheme,
            "seed": self.seed,
            "cfg": format!("D={} nv={:?} sup={} hid={} B={:?}", self.cfg.max_degree, self.cfg.num_vars, self.cfg.supported_degree, self.cfg.supported_hiding, self.cfg.bounds),
            "polys": self.polys.iter().map(|p| format!("{}:{:?}:deg{}:b{:?}:h{:?}", p.label, p.shape, p.degree, p.degree_bound, p.hiding)).collect::<Vec<_>>(),
            "points": self.points.iter().map(|p| format!("{}=v{}", p.label, p.value_id)).collect::<Vec<_>>(),
            "ops": self.ops.iter().map(|o| match o {
                Op::Open{polys, point} => format!("open{:?}@{}", polys, point),
                Op::Batch{queries} => format!("batch{:?}", queries),
                Op::Lc{lcs, queries} => format!("lc[{}]{:?}", lcs.iter().map(|l| format!("{}:{}t", l.label, l.terms.len())).collect::<Vec<_>>().join(","), queries),
            }).collect::<Vec<_>>(),
            "faults": self.faults.iter().map(|f| format!("{}@op{}:{}:{}", f.kind, f.op, f.target, f.aux)).collect::<Vec<_>>(),
            "sched": format!("seed={} threads={} identity={}", self.sched.rayon_seed, self.sched.threads, self.sched.identity),
        })
    }
}
