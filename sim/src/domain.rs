//! The admission model (reference model for "is this request inside the scheme's domain?").
//! Encodes exactly the C01 quantifier; used by generators, by the shrinker (a minimised positive
//! scenario must stay in-domain) and by the C04 / C17 oracles.
use crate::scenario::*;
use crate::schemes::{family_of, Family};

/// Ok(()) when every request of the scenario is inside the scheme's supported domain.
pub fn in_domain(s: &Scenario) -> Result<(), String> {
    let fam = family_of(&s.scheme);
    let c = &s.cfg;
    match fam {
        Family::Marlin | Family::Sonic => {
            if c.max_degree < 1 || c.supported_degree < 1 || c.supported_degree > c.max_degree {
                return Err("degree configuration".into());
            }
            if c.supported_hiding < 1 || c.supported_hiding > c.max_degree {
                return Err("hiding configuration".into());
            }
            if let Some(b) = &c.bounds {
                if b.iter().any(|&d| d < 1 || d > c.supported_degree) {
                    return Err("enforced bound outside [1, supported]".into());
                }
            }
            for p in &s.polys {
                if p.degree > c.supported_degree {
                    return Err(format!("{}: degree > supported", p.label));
                }
                if let Some(d) = p.degree_bound {
                    if d < p.degree || !c.bounds.as_ref().map_or(false, |b| b.contains(&d)) {
                        return Err(format!("{}: bound not enforced or below degree", p.label));
                    }
                }
                if let Some(h) = p.hiding {
                    let hmax = match (fam, p.degree_bound) {
                        (Family::Sonic, Some(b)) => c.supported_hiding.min(b),
                        _ => c.supported_hiding,
                    };
                    if h < 1 || h > hmax {
                        return Err(format!("{}: hiding bound outside [1, {hmax}]", p.label));
                    }
                }
            }
        }
        Family::Ipa => {
            if c.max_degree < 1 || c.supported_degree < 1 || c.supported_degree > c.max_degree {
                return Err("degree configuration".into());
            }
            for p in &s.polys {
                if p.degree > c.supported_degree {
                    return Err(format!("{}: degree > supported", p.label));
                }
                if let Some(d) = p.degree_bound {
                    if d < p.degree || d > c.supported_degree {
                        return Err(format!("{}: bound outside [deg, supported]", p.label));
                    }
                }
                if p.hiding == Some(0) {
                    return Err("hiding bound 0".into());
                }
            }
        }
        Family::Pst13 => {
            let nv = c.num_vars.unwrap_or(0);
            if nv < 1 || c.max_degree < 1 || c.supported_degree < 1 || c.supported_degree > c.max_degree {
                return Err("configuration".into());
            }
            for p in &s.polys {
                if p.degree > c.supported_degree || p.degree_bound.is_some() {
                    return Err(format!("{}: degree/bound", p.label));
                }
                if let Some(h) = p.hiding {
                    if h < 1 || h > c.supported_degree {
                        return Err(format!("{}: hiding", p.label));
                    }
                }
            }
        }
        Family::Hyrax => {
            match c.num_vars {
                Some(nv) if nv % 2 == 0 => {}
                _ => return Err("hyrax needs an even number of variables".into()),
            }
            if s.polys.iter().any(|p| p.degree_bound.is_some()) {
                return Err("degree bound".into());
            }
        }
        Family::MLigero | Family::Brakedown => {
            match c.num_vars {
                Some(nv) if nv >= 1 => {}
                _ => return Err("needs >= 1 variable".into()),
            }
            if s.polys.iter().any(|p| p.degree_bound.is_some() || p.hiding.is_some()) {
                return Err("bound/hiding".into());
            }
        }
        Family::Kzg10 => {
            if c.max_degree < 1 || c.supported_degree < 1 || c.supported_degree > c.max_degree || c.supported_hiding < 1 || c.supported_hiding > c.max_degree {
                return Err("configuration".into());
            }
            for p in &s.polys {
                if p.degree > c.supported_degree || p.degree_bound.is_some() {
                    return Err(format!("{}: degree/bound", p.label));
                }
                if let Some(h) = p.hiding {
                    if h < 1 || h > c.supported_hiding {
                        return Err(format!("{}: hiding", p.label));
                    }
                }
            }
        }
        Family::Mlpc => {
            match c.num_vars {
                Some(nv) if nv >= 1 && nv <= c.max_degree && c.supported_degree == nv => {}
                _ => return Err("multilinear PST needs 1 <= nv <= setup arity".into()),
            }
            if s.polys.iter().any(|p| p.degree_bound.is_some() || p.hiding.is_some()) {
                return Err("bound/hiding".into());
            }
        }
        Family::ULigero => {
            if c.max_degree < 1 {
                return Err("max_degree".into());
            }
            if s.polys.iter().any(|p| p.degree_bound.is_some() || p.hiding.is_some()) {
                return Err("bound/hiding".into());
            }
        }
    }
    Ok(())
}
