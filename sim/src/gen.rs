//! Swarm-style scenario generation (DESIGN.md §2.1, §2.7): sizes, workload mix, enabled benign
//! fault kinds and the rayon schedule all vary per run; everything is drawn from the run seed.
use crate::scenario::*;
use crate::schemes::{family_of, Family, PolyKind, SCHEMES};
use crate::seams::stream;
use ark_std::rand::Rng;
use rand_chacha::ChaCha20Rng;

pub struct Gen {
    pub r: ChaCha20Rng,
}

/// thorough tier: the same generators with wider size ranges (set once from the command line; a
/// replay file carries the scenario itself, so replays do not depend on it)
pub static DEEP: std::sync::atomic::AtomicBool = std::sync::atomic::AtomicBool::new(false);
fn deep() -> bool {
    DEEP.load(std::sync::atomic::Ordering::Relaxed)
}

pub const THREAD_KNOBS: [usize; 5] = [1, 2, 3, 8, 16];

/// which scheme a run uses: weights keep the expensive families from dominating wall-clock
pub fn pick_scheme(r: &mut ChaCha20Rng, allowed: &dyn Fn(Family) -> bool) -> String {
    let cands: Vec<&&str> = SCHEMES.iter().filter(|s| allowed(family_of(s))).collect();
    cands[r.gen_range(0..cands.len())].to_string()
}

impl Gen {
    pub fn new(run_seed: u64) -> Self {
        Gen { r: stream(run_seed, "gen", 0) }
    }
    fn small(&mut self, lo: usize, hi: usize) -> usize {
        // biased towards the low end: many short, diverse runs
        let a = self.r.gen_range(lo..=hi);
        let b = self.r.gen_range(lo..=hi);
        a.min(b)
    }

    pub fn sched(&mut self) -> Sched {
        Sched { rayon_seed: self.r.gen(), threads: THREAD_KNOBS[self.r.gen_range(0..5)], identity: self.r.gen_range(0..10) == 0 }
    }

    /// benign environment: reorder, duplicate, short-io, eintr, restart, reserialize
    pub fn env(&mut self, n_ops: usize, benign: bool) -> Env {
        let mut e = Env::default();
        e.compress = self.r.gen_bool(0.6);
        e.validate = self.r.gen_bool(0.7);
        e.sponge_preabsorb = self.r.gen_range(0..3);
        if benign {
            // swarm: each benign fault kind is enabled in a random subset of runs
            if self.r.gen_bool(0.5) {
                e.io_chunk = self.r.gen::<u64>() | 1;
            }
            if self.r.gen_bool(0.3) {
                e.io_eintr = self.r.gen_range(2..7);
            }
            if self.r.gen_bool(0.6) {
                e.prover_perm = self.r.gen::<u64>() | 1;
            }
            if self.r.gen_bool(0.6) {
                e.verifier_perm = self.r.gen::<u64>() | 1;
            }
            e.verifier_dup = self.r.gen_bool(0.25);
            if self.r.gen_bool(0.4) {
                e.verifier_bounds_perm = self.r.gen::<u64>() | 1;
            }
            for i in 0..n_ops {
                if self.r.gen_bool(0.15) {
                    e.restart_prover_before.push(i);
                }
                if self.r.gen_bool(0.15) {
                    e.restart_verifier_before.push(i);
                }
            }
        }
        e
    }

    /// key configuration + polynomials inside the scheme's domain (the C01 quantifier); for the
    /// linear-code schemes a third of the runs randomise the tuning knobs (security parameter,
    /// rate, well-formedness check) through the public parameter constructors
    pub fn workload(&mut self, scheme: &str, max_polys: usize) -> (KeyCfg, Vec<PolySpec>) {
        let (mut cfg, polys) = self.workload_inner(scheme, max_polys);
        if family_of(scheme).is_lincode() && self.r.gen_bool(0.35) {
            let fam = family_of(scheme);
            cfg.lincode = Some(LcKnobs {
                check_well_formedness: self.r.gen_bool(0.5),
                sec_param: [128, 100, 64, 32][self.r.gen_range(0..4)],
                rho_inv: if fam == Family::Brakedown { 0 } else { [2, 4, 8][self.r.gen_range(0..3)] },
            });
        }
        (cfg, polys)
    }

    fn workload_inner(&mut self, scheme: &str, max_polys: usize) -> (KeyCfg, Vec<PolySpec>) {
        let fam = family_of(scheme);
        let n_polys = self.small(1, max_polys + if deep() { 2 } else { 0 });
        match fam {
            Family::Marlin | Family::Sonic => {
                let max_degree = if deep() { if self.r.gen_bool(0.8) { self.small(1, 48) } else { self.r.gen_range(49..=128) } } else if self.r.gen_bool(0.85) { self.small(1, 24) } else { self.r.gen_range(25..=64) };
                let supported = if self.r.gen_bool(0.3) { max_degree } else { self.r.gen_range(1..=max_degree) };
                let supported_hiding = self.r.gen_range(1..=max_degree.min(5));
                // enforced bounds: None | empty | 1..4 bounds in [1, supported], unsorted, maybe duplicated
                let bounds = match self.r.gen_range(0..10) {
                    0 => None,
                    1 => Some(vec![]),
                    _ => {
                        let k = self.r.gen_range(1..=4);
                        let mut b: Vec<usize> = (0..k).map(|_| self.r.gen_range(1..=supported)).collect();
                        if self.r.gen_bool(0.3) {
                            b.push(supported);
                        }
                        if self.r.gen_bool(0.3) {
                            let d = b[0];
                            b.push(d);
                        }
                        Some(b)
                    }
                };
                let cfg = KeyCfg { max_degree, num_vars: None, supported_degree: supported, supported_hiding, bounds: bounds.clone(), lincode: None };
                let mut polys = vec![];
                for i in 0..n_polys {
                    let (shape, degree) = self.uni_shape(supported);
                    let usable: Vec<usize> = bounds.clone().unwrap_or_default().into_iter().filter(|b| *b >= degree).collect();
                    let degree_bound = if !usable.is_empty() && self.r.gen_bool(0.55) { Some(usable[self.r.gen_range(0..usable.len())]) } else { None };
                    let hmax = match (fam, degree_bound) {
                        (Family::Sonic, Some(b)) => supported_hiding.min(b),
                        _ => supported_hiding,
                    };
                    let hiding = if hmax >= 1 && self.r.gen_bool(0.5) { Some(self.r.gen_range(1..=hmax)) } else { None };
                    polys.push(PolySpec { label: format!("p{i}"), shape, degree, degree_bound, hiding, coeff_id: i as u64 });
                }
                (cfg, polys)
            }
            Family::Kzg10 => {
                let max_degree = if deep() { if self.r.gen_bool(0.8) { self.small(1, 48) } else { self.r.gen_range(49..=128) } } else if self.r.gen_bool(0.85) { self.small(1, 24) } else { self.r.gen_range(25..=64) };
                let supported = if self.r.gen_bool(0.3) { max_degree } else { self.r.gen_range(1..=max_degree) };
                let supported_hiding = self.r.gen_range(1..=max_degree.min(5));
                let cfg = KeyCfg { max_degree, num_vars: None, supported_degree: supported, supported_hiding, bounds: None, lincode: None };
                let mut polys = vec![];
                for i in 0..n_polys {
                    let (shape, degree) = self.uni_shape(supported);
                    let hiding = if self.r.gen_bool(0.5) { Some(self.r.gen_range(1..=supported_hiding)) } else { None };
                    polys.push(PolySpec { label: format!("p{i}"), shape, degree, degree_bound: None, hiding, coeff_id: i as u64 });
                }
                (cfg, polys)
            }
            Family::Mlpc => {
                // universal parameters for `max_degree` variables, keys trimmed to `nv` <= that
                let nv_setup = self.small(1, 7);
                let nv = if self.r.gen_bool(0.5) { nv_setup } else { self.r.gen_range(1..=nv_setup) };
                let cfg = KeyCfg { max_degree: nv_setup, num_vars: Some(nv), supported_degree: nv, supported_hiding: 1, bounds: None, lincode: None };
                let n = 1usize << nv;
                let mut polys = vec![];
                for i in 0..n_polys {
                    let shape = match self.r.gen_range(0..10) {
                        0 => Shape::Zero,
                        1 => Shape::Const,
                        2 => Shape::LowZeros(self.r.gen_range(0..=n / 2)),
                        3 => Shape::Sparse(self.r.gen_range(1..=3)),
                        _ => Shape::Dense,
                    };
                    polys.push(PolySpec { label: format!("p{i}"), shape, degree: nv, degree_bound: None, hiding: None, coeff_id: i as u64 });
                }
                (cfg, polys)
            }
            Family::Ipa => {
                let max_degree = if deep() { if self.r.gen_bool(0.8) { self.small(1, 40) } else { self.r.gen_range(41..=127) } } else if self.r.gen_bool(0.85) { self.small(1, 20) } else { self.r.gen_range(21..=63) };
                let supported = if self.r.gen_bool(0.3) { max_degree } else { self.r.gen_range(1..=max_degree) };
                let cfg = KeyCfg { max_degree, num_vars: None, supported_degree: supported, supported_hiding: 1, bounds: None, lincode: None };
                let mut polys = vec![];
                for i in 0..n_polys {
                    let (shape, degree) = self.uni_shape(supported);
                    let degree_bound = if self.r.gen_bool(0.5) { Some(self.r.gen_range(degree..=supported)) } else { None };
                    let hiding = if self.r.gen_bool(0.5) { Some(self.r.gen_range(1..=3)) } else { None };
                    polys.push(PolySpec { label: format!("p{i}"), shape, degree, degree_bound, hiding, coeff_id: i as u64 });
                }
                (cfg, polys)
            }
            Family::Pst13 => {
                let nv = self.small(1, 4);
                let dmax = match nv { 1 | 2 => 5, 3 => 4, _ => 3 } + if deep() { 1 } else { 0 };
                let max_degree = if self.r.gen_bool(0.5) { self.r.gen_range(1..=dmax) } else { self.small(1, dmax) };
                let supported = if self.r.gen_bool(0.4) { max_degree } else { self.r.gen_range(1..=max_degree) };
                let cfg = KeyCfg { max_degree, num_vars: Some(nv), supported_degree: supported, supported_hiding: supported, bounds: None, lincode: None };
                let mut polys = vec![];
                for i in 0..n_polys {
                    let (shape, degree) = match self.r.gen_range(0..10) {
                        0 => (Shape::Zero, 0),
                        1 => (Shape::Const, 0),
                        2 => (Shape::UniSum, self.r.gen_range(1..=supported)),
                        3 | 4 => (Shape::Sparse(self.r.gen_range(1..=4)), self.r.gen_range(1..=supported)),
                        _ => (Shape::Dense, self.r.gen_range(1..=supported)),
                    };
                    let hiding = if self.r.gen_bool(0.5) { Some(self.r.gen_range(1..=supported)) } else { None };
                    polys.push(PolySpec { label: format!("p{i}"), shape, degree, degree_bound: None, hiding, coeff_id: i as u64 });
                }
                (cfg, polys)
            }
            Family::Hyrax | Family::MLigero | Family::Brakedown => {
                let nv = match fam {
                    Family::Hyrax => 2 * self.small(0, if deep() { 5 } else { 4 }),
                    Family::MLigero => self.small(1, if deep() { 11 } else { 9 }),
                    _ => self.small(1, if deep() { 10 } else { 8 }),
                };
                let cfg = KeyCfg { max_degree: nv.max(1), num_vars: Some(nv), supported_degree: nv.max(1), supported_hiding: 1, bounds: None, lincode: None };
                let n = 1usize << nv;
                let mut polys = vec![];
                for i in 0..n_polys {
                    let shape = match self.r.gen_range(0..10) {
                        0 => Shape::Zero,
                        1 => Shape::Const,
                        2 => Shape::LowZeros(self.r.gen_range(0..=n / 2)),
                        3 => Shape::Sparse(self.r.gen_range(1..=3)),
                        _ => Shape::Dense,
                    };
                    polys.push(PolySpec { label: format!("p{i}"), shape, degree: nv, degree_bound: None, hiding: if fam == Family::Hyrax && self.r.gen_bool(0.3) { Some(1) } else { None }, coeff_id: i as u64 });
                }
                (cfg, polys)
            }
            Family::ULigero => {
                let max_degree = if deep() { if self.r.gen_bool(0.8) { self.small(1, 100) } else { self.r.gen_range(101..=500) } } else if self.r.gen_bool(0.85) { self.small(1, 40) } else { self.r.gen_range(41..=200) };
                let cfg = KeyCfg { max_degree, num_vars: None, supported_degree: max_degree, supported_hiding: 1, bounds: None, lincode: None };
                let mut polys = vec![];
                for i in 0..n_polys {
                    let (shape, degree) = self.uni_shape(max_degree);
                    polys.push(PolySpec { label: format!("p{i}"), shape, degree, degree_bound: None, hiding: None, coeff_id: i as u64 });
                }
                (cfg, polys)
            }
        }
    }

    fn uni_shape(&mut self, supported: usize) -> (Shape, usize) {
        match self.r.gen_range(0..12) {
            0 => (Shape::Zero, 0),
            1 => (Shape::Const, 0),
            2 => (Shape::Dense, supported),
            3 => {
                let d = self.r.gen_range(0..=supported);
                (Shape::LowZeros(self.r.gen_range(0..=d)), d)
            }
            4 => {
                let d = self.r.gen_range(0..=supported);
                (Shape::Sparse(self.r.gen_range(0..=2)), d)
            }
            _ => (Shape::Dense, self.r.gen_range(0..=supported)),
        }
    }

    /// 1..4 point labels, some sharing one value
    pub fn points(&mut self, max: usize) -> Vec<PointSpec> {
        let n = self.small(1, max);
        let mut out = vec![];
        let mut next_val = 0u32;
        for i in 0..n {
            let value_id = if i > 0 && self.r.gen_bool(0.25) { self.r.gen_range(0..next_val) } else { next_val += 1; next_val - 1 };
            // label order is independent of creation order so BTreeMap order varies
            let label = format!("z{}", (i * 7 + (self.r.gen_range(0..3))) % 23);
            if out.iter().any(|p: &PointSpec| p.label == label) {
                out.push(PointSpec { label: format!("y{i}"), value_id });
            } else {
                out.push(PointSpec { label, value_id });
            }
        }
        out
    }

    pub fn open_or_batch(&mut self, n_polys: usize, n_points: usize, p_batch: f64) -> Op {
        if self.r.gen_bool(p_batch) {
            let mut queries = vec![];
            for p in 0..n_polys {
                for z in 0..n_points {
                    if self.r.gen_bool(0.6) {
                        queries.push((p, z));
                    }
                }
            }
            if queries.is_empty() {
                queries.push((self.r.gen_range(0..n_polys), self.r.gen_range(0..n_points)));
            }
            Op::Batch { queries }
        } else {
            let mut polys: Vec<usize> = (0..n_polys).filter(|_| self.r.gen_bool(0.7)).collect();
            if polys.is_empty() {
                polys.push(self.r.gen_range(0..n_polys));
            }
            // positional order is arbitrary but the same on both sides
            for i in (1..polys.len()).rev() {
                let j = self.r.gen_range(0..=i);
                polys.swap(i, j);
            }
            Op::Open { polys, point: self.r.gen_range(0..n_points) }
        }
    }
}

pub fn kind_of(scheme: &str) -> PolyKind {
    family_of(scheme).kind()
}

impl Gen {
    /// LC operation that respects the degree-bound policy (positive runs): an LC either consists of
    /// exactly one degree-bounded polynomial with coefficient one, or only of unbounded polynomials
    /// and constants.
    pub fn lc_op(&mut self, polys: &[PolySpec], n_points: usize) -> Op {
        let unbounded: Vec<usize> = (0..polys.len()).filter(|&i| polys[i].degree_bound.is_none()).collect();
        let bounded: Vec<usize> = (0..polys.len()).filter(|&i| polys[i].degree_bound.is_some()).collect();
        let n_lcs = self.small(1, 3);
        let mut lcs = vec![];
        for l in 0..n_lcs {
            let label = format!("lc{}", (l * 5 + self.r.gen_range(0..2)) % 11);
            let label = if lcs.iter().any(|x: &LcSpec| x.label == label) { format!("lq{l}") } else { label };
            if !bounded.is_empty() && (unbounded.is_empty() || self.r.gen_bool(0.2)) {
                let b = bounded[self.r.gen_range(0..bounded.len())];
                lcs.push(LcSpec { label, terms: vec![(Coeff::One, Some(b))] });
                continue;
            }
            let n_terms = self.small(1, 6);
            let mut terms = vec![];
            for t in 0..n_terms {
                let coeff = match self.r.gen_range(0..8) {
                    0 => Coeff::Zero,
                    1 | 2 => Coeff::One,
                    3 => Coeff::MinusOne,
                    _ => Coeff::Rand(self.r.gen_range(0..1000)),
                };
                let is_const = t > 0 && self.r.gen_bool(0.2);
                terms.push((coeff, if is_const { None } else { Some(unbounded[self.r.gen_range(0..unbounded.len())]) }));
            }
            if terms.iter().all(|(_, t)| t.is_none()) {
                terms[0].1 = Some(unbounded[0]);
            }
            // order of terms is arbitrary
            for i in (1..terms.len()).rev() {
                let j = self.r.gen_range(0..=i);
                terms.swap(i, j);
            }
            lcs.push(LcSpec { label, terms });
        }
        let mut queries = vec![];
        for l in 0..lcs.len() {
            for z in 0..n_points {
                if self.r.gen_bool(0.6) {
                    queries.push((l, z));
                }
            }
        }
        if queries.is_empty() {
            queries.push((self.r.gen_range(0..lcs.len()), self.r.gen_range(0..n_points)));
        }
        Op::Lc { lcs, queries }
    }

    /// The C06 statement singles out point labels sharing a point value, constant terms and LCs
    /// asked at several points: make those shapes frequent (applied to the LC ops of a scenario).
    pub fn lc_stress(&mut self, polys: &[PolySpec], points: &mut Vec<PointSpec>, ops: &mut [Op]) {
        if !ops.iter().any(|o| matches!(o, Op::Lc { .. })) {
            return;
        }
        if self.r.gen_bool(0.45) {
            if points.len() < 2 {
                let v = points[0].value_id;
                points.push(PointSpec { label: "w".into(), value_id: v });
            } else {
                let v = points[0].value_id;
                let k = self.r.gen_range(1..points.len());
                points[k].value_id = v;
            }
        }
        for op in ops.iter_mut() {
            if let Op::Lc { lcs, queries } = op {
                if self.r.gen_bool(0.5) {
                    for lc in lcs.iter_mut() {
                        let single_bounded = lc.terms.len() == 1 && lc.terms[0].1.map_or(false, |p| polys[p].degree_bound.is_some());
                        if !single_bounded && !lc.terms.iter().any(|t| t.1.is_none()) {
                            lc.terms.push((Coeff::Rand(self.r.gen_range(0..1000)), None));
                        }
                    }
                    for l in 0..lcs.len() {
                        for z in 0..points.len() {
                            if !queries.contains(&(l, z)) && self.r.gen_bool(0.7) {
                                queries.push((l, z));
                            }
                        }
                    }
                }
            }
        }
    }

    /// does the workload allow an LC op at all (some polynomial an LC may mention)?
    pub fn any_op(&mut self, polys: &[PolySpec], n_points: usize, p_lc: f64, p_batch: f64) -> Op {
        if self.r.gen_bool(p_lc) {
            self.lc_op(polys, n_points)
        } else {
            self.open_or_batch(polys.len(), n_points, p_batch)
        }
    }
}

/// positions of an operation that carry one claimed value each
pub fn n_positions(op: &Op) -> usize {
    match op {
        Op::Open { polys, .. } => polys.len(),
        Op::Batch { queries } | Op::Lc { queries, .. } => queries.len(),
    }
}
/// point index of position `pos`
pub fn point_of(op: &Op, pos: usize) -> usize {
    match op {
        Op::Open { point, .. } => *point,
        Op::Batch { queries } | Op::Lc { queries, .. } => queries[pos].1,
    }
}
