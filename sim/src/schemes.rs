//! Scheme instantiations (DESIGN.md §2.7): all real library code; the harness only supplies
//! workload builders, an independent evaluator (the reference model's `truth`) and the
//! scheme-specific surgery on proofs / commitments that the fault catalogue needs.
use crate::scenario::{KeyCfg, PolySpec, Shape};
use crate::seams::stream;
use ark_crypto_primitives::{
    crh::{sha256::Sha256, CRHScheme, TwoToOneCRHScheme},
    merkle_tree::{ByteDigestConverter, Config},
    sponge::Absorb,
};
use ark_ec::{pairing::Pairing, AffineRepr};
use ark_ff::PrimeField;
use ark_poly::{
    multivariate::{SparsePolynomial, SparseTerm, Term},
    univariate::DensePolynomial,
    DenseMVPolynomial, DenseMultilinearExtension, DenseUVPolynomial, Polynomial,
};
use ark_poly_commit::{
    hyrax::HyraxPC,
    ipa_pc::InnerProductArgPC,
    linear_codes::{LinearCodePCS, MultilinearBrakedown, MultilinearLigero, UnivariateLigero},
    marlin_pc::MarlinKZG10,
    marlin_pst13_pc::MarlinPST13,
    sonic_pc::SonicKZG10,
    PolynomialCommitment,
};
use ark_serialize::CanonicalSerialize;
use ark_std::rand::{Rng, RngCore};
use blake2::Blake2s256;
use digest::Digest;
use std::{borrow::Borrow, fmt::Debug, hash::Hash, marker::PhantomData};

#[derive(Clone, Copy, Debug, PartialEq, Eq)]
pub enum Family {
    Marlin,
    Sonic,
    Ipa,
    Pst13,
    Hyrax,
    ULigero,
    MLigero,
    Brakedown,
    /// raw `KZG10` behind the harness adapter
    Kzg10,
    /// `MultilinearPC` behind the harness adapter
    Mlpc,
}
impl Family {
    pub fn has_degree_bounds(self) -> bool {
        matches!(self, Family::Marlin | Family::Sonic | Family::Ipa)
    }
    /// honours `hiding_bound` (Hyrax always hides, linear codes never)
    pub fn has_hiding(self) -> bool {
        matches!(self, Family::Marlin | Family::Sonic | Family::Ipa | Family::Pst13 | Family::Kzg10)
    }
    pub fn is_lincode(self) -> bool {
        matches!(self, Family::ULigero | Family::MLigero | Family::Brakedown)
    }
    /// batch_check / check_combinations are the trait defaults
    pub fn default_batch(self) -> bool {
        matches!(self, Family::Hyrax | Family::ULigero | Family::MLigero | Family::Brakedown | Family::Mlpc)
    }
    pub fn kind(self) -> PolyKind {
        match self {
            Family::Marlin | Family::Sonic | Family::Ipa | Family::ULigero | Family::Kzg10 => PolyKind::Uni,
            Family::Pst13 => PolyKind::Mv,
            _ => PolyKind::Ml,
        }
    }
}
#[derive(Clone, Copy, Debug, PartialEq, Eq)]
pub enum PolyKind {
    Uni,
    Ml,
    Mv,
}

// ---------------------------------------------------------------------------------------------
// Merkle configuration for the linear-code schemes (the crate's own are #[cfg(test)]).

pub struct LeafIdentityHasher;
impl CRHScheme for LeafIdentityHasher {
    type Input = Vec<u8>;
    type Output = Vec<u8>;
    type Parameters = ();
    fn setup<R: RngCore>(_: &mut R) -> Result<(), ark_crypto_primitives::Error> {
        Ok(())
    }
    fn evaluate<T: Borrow<Vec<u8>>>(_: &(), input: T) -> Result<Vec<u8>, ark_crypto_primitives::Error> {
        Ok(input.borrow().to_vec())
    }
}
pub struct ColHasher<F, D>(PhantomData<(F, D)>);
impl<F: PrimeField, D: Digest> CRHScheme for ColHasher<F, D> {
    type Input = Vec<F>;
    type Output = Vec<u8>;
    type Parameters = ();
    fn setup<R: RngCore>(_: &mut R) -> Result<(), ark_crypto_primitives::Error> {
        Ok(())
    }
    fn evaluate<T: Borrow<Vec<F>>>(_: &(), input: T) -> Result<Vec<u8>, ark_crypto_primitives::Error> {
        let mut d = D::new();
        let mut b = vec![];
        input.borrow().serialize_compressed(&mut b).unwrap();
        d.update(b);
        Ok(d.finalize().to_vec())
    }
}
pub struct MT;
impl Config for MT {
    type Leaf = Vec<u8>;
    type LeafDigest = Vec<u8>;
    type LeafInnerDigestConverter = ByteDigestConverter<Vec<u8>>;
    type InnerDigest = <Sha256 as TwoToOneCRHScheme>::Output;
    type LeafHash = LeafIdentityHasher;
    type TwoToOneHash = Sha256;
}
pub type CH<F> = ColHasher<F, Blake2s256>;

// ---------------------------------------------------------------------------------------------

pub type UPoly<F> = DensePolynomial<F>;
pub type MlPoly<F> = DenseMultilinearExtension<F>;
pub type MvPoly<F> = SparsePolynomial<F, SparseTerm>;

/// Polynomial representation glue: builders from a `PolySpec`, independent evaluation.
pub trait PolyGlue<F: PrimeField>: Polynomial<F> {
    const KIND: PolyKind;
    fn build(cfg: &KeyCfg, spec: &PolySpec, seed: u64) -> Self;
    fn point(cfg: &KeyCfg, seed: u64, value_id: u32) -> Self::Point;
    /// independent evaluation (Horner / hypercube sum / term sum) — not `Polynomial::evaluate`
    fn eval_ref(&self, z: &Self::Point) -> F;
    fn point_len(z: &Self::Point) -> usize;
    fn shift_point(z: &Self::Point, coord: usize, delta: F) -> Self::Point;
    fn point_bytes(z: &Self::Point) -> Vec<u8>;
    /// true degree of the built polynomial (0 for zero/const); number of variables for ML
    fn size(&self) -> usize;
    fn is_constant(&self) -> bool;
    /// self + c (as a polynomial of the same representation)
    fn add_const(&self, c: F) -> Self;
}

fn nz<F: PrimeField>(r: &mut impl RngCore) -> F {
    loop {
        let x = F::rand(r);
        if !x.is_zero() {
            return x;
        }
    }
}

impl<F: PrimeField> PolyGlue<F> for UPoly<F> {
    const KIND: PolyKind = PolyKind::Uni;
    fn build(_cfg: &KeyCfg, spec: &PolySpec, seed: u64) -> Self {
        let mut r = stream(seed, "coeffs", spec.coeff_id);
        let d = spec.degree;
        let coeffs: Vec<F> = match &spec.shape {
            Shape::Zero => vec![],
            Shape::Const => vec![nz(&mut r)],
            Shape::Dense | Shape::UniSum => {
                let mut c: Vec<F> = (0..=d).map(|_| F::rand(&mut r)).collect();
                c[d] = nz(&mut r);
                c
            }
            Shape::LowZeros(k) => {
                let k = (*k).min(d);
                let mut c: Vec<F> = (0..=d).map(|i| if i < k { F::zero() } else { F::rand(&mut r) }).collect();
                c[d] = nz(&mut r);
                c
            }
            Shape::Sparse(k) => {
                let mut c = vec![F::zero(); d + 1];
                for _ in 0..*k {
                    let i = r.gen_range(0..=d);
                    c[i] = F::rand(&mut r);
                }
                c[d] = nz(&mut r);
                c
            }
        };
        DensePolynomial::from_coefficients_vec(coeffs)
    }
    fn point(_cfg: &KeyCfg, seed: u64, value_id: u32) -> F {
        F::rand(&mut stream(seed, "point", value_id as u64))
    }
    fn eval_ref(&self, z: &F) -> F {
        let mut acc = F::zero();
        for c in self.coeffs.iter().rev() {
            acc = acc * z + c;
        }
        acc
    }
    fn point_len(_: &F) -> usize {
        1
    }
    fn shift_point(z: &F, _coord: usize, delta: F) -> F {
        *z + delta
    }
    fn point_bytes(z: &F) -> Vec<u8> {
        let mut b = vec![];
        z.serialize_compressed(&mut b).unwrap();
        b
    }
    fn size(&self) -> usize {
        if self.coeffs.is_empty() {
            0
        } else {
            self.coeffs.len() - 1
        }
    }
    fn is_constant(&self) -> bool {
        self.coeffs.len() <= 1
    }
    fn add_const(&self, c: F) -> Self {
        let mut v = self.coeffs.clone();
        if v.is_empty() {
            v.push(c);
        } else {
            v[0] += c;
        }
        DensePolynomial::from_coefficients_vec(v)
    }
}

impl<F: PrimeField> PolyGlue<F> for MlPoly<F> {
    const KIND: PolyKind = PolyKind::Ml;
    fn build(cfg: &KeyCfg, spec: &PolySpec, seed: u64) -> Self {
        let nv = cfg.num_vars.unwrap_or(0);
        let n = 1usize << nv;
        let mut r = stream(seed, "coeffs", spec.coeff_id);
        let ev: Vec<F> = match &spec.shape {
            Shape::Zero => vec![F::zero(); n],
            Shape::Const => {
                let c = nz(&mut r);
                vec![c; n]
            }
            Shape::Dense | Shape::UniSum => (0..n).map(|_| F::rand(&mut r)).collect(),
            Shape::LowZeros(k) => (0..n).map(|i| if i < *k { F::zero() } else { F::rand(&mut r) }).collect(),
            Shape::Sparse(k) => {
                let mut v = vec![F::zero(); n];
                for _ in 0..*k {
                    let i = r.gen_range(0..n);
                    v[i] = nz(&mut r);
                }
                v
            }
        };
        DenseMultilinearExtension::from_evaluations_vec(nv, ev)
    }
    fn point(cfg: &KeyCfg, seed: u64, value_id: u32) -> Vec<F> {
        let mut r = stream(seed, "point", value_id as u64);
        (0..cfg.num_vars.unwrap_or(0)).map(|_| F::rand(&mut r)).collect()
    }
    fn eval_ref(&self, z: &Vec<F>) -> F {
        // sum over the hypercube: e[i] * prod_k (bit_k(i) ? z_k : 1 - z_k), variable 0 = lowest bit
        let nv = self.num_vars;
        assert_eq!(z.len(), nv);
        let mut acc = F::zero();
        for (i, e) in self.evaluations.iter().enumerate() {
            if e.is_zero() {
                continue;
            }
            let mut w = *e;
            for (k, zk) in z.iter().enumerate() {
                if (i >> k) & 1 == 1 {
                    w *= zk;
                } else {
                    w *= F::one() - zk;
                }
            }
            acc += w;
        }
        acc
    }
    fn point_len(z: &Vec<F>) -> usize {
        z.len()
    }
    fn shift_point(z: &Vec<F>, coord: usize, delta: F) -> Vec<F> {
        let mut z = z.clone();
        if !z.is_empty() {
            let c = coord % z.len();
            z[c] += delta;
        }
        z
    }
    fn point_bytes(z: &Vec<F>) -> Vec<u8> {
        let mut b = vec![];
        z.serialize_compressed(&mut b).unwrap();
        b
    }
    fn size(&self) -> usize {
        self.num_vars
    }
    fn is_constant(&self) -> bool {
        self.evaluations.windows(2).all(|w| w[0] == w[1])
    }
    fn add_const(&self, c: F) -> Self {
        DenseMultilinearExtension::from_evaluations_vec(self.num_vars, self.evaluations.iter().map(|e| *e + c).collect())
    }
}

impl<F: PrimeField> PolyGlue<F> for MvPoly<F> {
    const KIND: PolyKind = PolyKind::Mv;
    fn build(cfg: &KeyCfg, spec: &PolySpec, seed: u64) -> Self {
        let nv = cfg.num_vars.unwrap_or(1);
        let d = spec.degree;
        let mut r = stream(seed, "coeffs", spec.coeff_id);
        // a random monomial of total degree exactly `deg` with genuinely mixed variables
        let mono = |r: &mut rand_chacha::ChaCha20Rng, deg: usize| -> SparseTerm {
            let mut e = vec![0usize; nv];
            for _ in 0..deg {
                let v = r.gen_range(0..nv);
                e[v] += 1;
            }
            SparseTerm::new(e.into_iter().enumerate().filter(|(_, x)| *x > 0).collect())
        };
        let terms: Vec<(F, SparseTerm)> = match &spec.shape {
            Shape::Zero => vec![],
            Shape::Const => vec![(nz(&mut r), SparseTerm::new(vec![]))],
            Shape::UniSum => {
                let mut t = vec![(F::rand(&mut r), SparseTerm::new(vec![]))];
                for v in 0..nv {
                    for e in 1..=d {
                        t.push((F::rand(&mut r), SparseTerm::new(vec![(v, e)])));
                    }
                }
                t
            }
            Shape::Dense | Shape::LowZeros(_) => {
                let k = 2 + r.gen_range(0..(3 * d + 3));
                let mut t = vec![(nz(&mut r), mono(&mut r, d))];
                // genuinely mixed monomials with a higher power in one variable: X_a^(e) * X_b, a != b
                if nv >= 2 && d >= 2 {
                    for _ in 0..2 {
                        let a = r.gen_range(0..nv);
                        let b = (a + 1 + r.gen_range(0..nv - 1)) % nv;
                        let e = r.gen_range(1..d);
                        let mut term = vec![(a, e), (b, d - e)];
                        term.sort();
                        t.push((nz(&mut r), SparseTerm::new(term)));
                    }
                }
                for _ in 0..k {
                    let deg = r.gen_range(0..=d);
                    t.push((F::rand(&mut r), mono(&mut r, deg)));
                }
                t
            }
            Shape::Sparse(k) => {
                let mut t = vec![(nz(&mut r), mono(&mut r, d))];
                for _ in 1..*k {
                    let deg = r.gen_range(0..=d);
                    t.push((nz(&mut r), mono(&mut r, deg)));
                }
                t
            }
        };
        SparsePolynomial::from_coefficients_vec(nv, terms)
    }
    fn point(cfg: &KeyCfg, seed: u64, value_id: u32) -> Vec<F> {
        let mut r = stream(seed, "point", value_id as u64);
        (0..cfg.num_vars.unwrap_or(1)).map(|_| F::rand(&mut r)).collect()
    }
    fn eval_ref(&self, z: &Vec<F>) -> F {
        let mut acc = F::zero();
        for (c, t) in self.terms.iter() {
            let mut w = *c;
            for (v, e) in t.iter() {
                for _ in 0..*e {
                    w *= z[*v];
                }
            }
            acc += w;
        }
        acc
    }
    fn point_len(z: &Vec<F>) -> usize {
        z.len()
    }
    fn shift_point(z: &Vec<F>, coord: usize, delta: F) -> Vec<F> {
        let mut z = z.clone();
        let c = coord % z.len();
        z[c] += delta;
        z
    }
    fn point_bytes(z: &Vec<F>) -> Vec<u8> {
        let mut b = vec![];
        z.serialize_compressed(&mut b).unwrap();
        b
    }
    fn size(&self) -> usize {
        Polynomial::degree(self)
    }
    fn is_constant(&self) -> bool {
        self.terms.iter().all(|(_, t)| t.is_constant())
    }
    fn add_const(&self, c: F) -> Self {
        let mut t = self.terms.clone();
        t.push((c, SparseTerm::new(vec![])));
        SparsePolynomial::from_coefficients_vec(self.num_vars, t)
    }
}

// ---------------------------------------------------------------------------------------------

pub trait Scheme: 'static + Sized {
    type F: PrimeField + Absorb;
    type P: PolyGlue<Self::F, Point = Self::Pt> + Clone + Debug;
    type Pt: Clone + Debug + Hash + Ord + Sync;
    type PC: PolynomialCommitment<Self::F, Self::P>;
    const FAMILY: Family;
    fn name() -> String;

    /// parameters built through the scheme's public constructors with non-default tuning knobs
    fn alt_setup(_cfg: &KeyCfg, _rng: &mut dyn RngCore) -> Option<Pp<Self>> {
        None
    }
    // ---- scheme-specific surgery used by the fault catalogue (default: not available) ----
    /// the commitment with its degree-bound part removed
    fn comm_without_shifted(_c: &Comm<Self>) -> Option<Comm<Self>> {
        None
    }
    /// the commitment `c` carrying the degree-bound part of `o`
    fn comm_with_shifted_of(_c: &Comm<Self>, _o: &Comm<Self>) -> Option<Comm<Self>> {
        None
    }
    /// C05 replica I for schemes whose batch proof has no per-point-label structure of its own
    /// (raw KZG10: the grouping of its proofs is an artefact of the harness adapter): the AND of the
    /// individual checks over the flattened statement and proof lists. None = use the generic replica.
    #[cfg(feature = "full")]
    fn flat_individual_and(
        _vk: &Vk<Self>,
        _comms: &[ark_poly_commit::LabeledCommitment<Comm<Self>>],
        _qs: &ark_poly_commit::QuerySet<Self::Pt>,
        _evals: &ark_poly_commit::Evaluations<Self::Pt, Self::F>,
        _proof: &BatchProof<Self>,
    ) -> Option<(bool, String)> {
        None
    }
    /// the commitment `c` carrying the *plain* part of `o` as a (surplus) degree-bound part
    fn comm_with_surplus_shift(_c: &Comm<Self>, _o: &Comm<Self>) -> Option<Comm<Self>> {
        None
    }
    /// the commitment `c` with the group identity as its degree-bound part
    fn comm_with_identity_shift(_c: &Comm<Self>) -> Option<Comm<Self>> {
        None
    }
    /// every single-component replacement / shape mutation of a proof: (name, mutated proof)
    fn proof_variants(_p: &Proof<Self>, _seed: u64) -> Vec<(String, Proof<Self>)> {
        vec![]
    }
    /// targeted forgeries (false claim + crafted proof) for operation `op`: (name, claim)
    #[cfg(feature = "full")]
    fn forged_claims(
        _scn: &crate::scenario::Scenario,
        _sess: &crate::session::Sess<Self>,
        _op: &crate::scenario::Op,
        _honest: &crate::session::Claim<Self>,
        _pos: usize,
        _pre_verifier: &crate::seams::TraceSponge<Self::F>,
        _f: &crate::scenario::Fault,
    ) -> Vec<(String, crate::session::Claim<Self>)> {
        vec![]
    }
    /// C07: structural identities between a commitment, the same polynomial's non-hiding commitment,
    /// the returned state and the public hiding generators. None = the scheme has no hiding.
    #[cfg(feature = "full")]
    fn hiding_audit(
        _ck: &Ck<Self>,
        _lp: &ark_poly_commit::LabeledPolynomial<Self::F, Self::P>,
        _comm: &Comm<Self>,
        _plain: Option<&Comm<Self>>,
        _state: &State<Self>,
    ) -> Option<Vec<String>> {
        None
    }
    /// bytes of the blinding-related fields of a proof (None = none exist)
    #[cfg(feature = "full")]
    fn proof_blinding_bytes(_p: &Proof<Self>) -> Option<Vec<u8>> {
        None
    }
    /// (blinding evaluation the proof carries, blinding evaluation it must carry) for a single `open`
    #[cfg(feature = "full")]
    fn random_v_check(
        _p: &Proof<Self>,
        _lps: &[&ark_poly_commit::LabeledPolynomial<Self::F, Self::P>],
        _states: &[&State<Self>],
        _z: &Self::Pt,
        _challenges: &[Self::F],
    ) -> Option<(Option<Self::F>, Option<Self::F>)> {
        None
    }
    /// How many bits of the transcript bind an opening proof of this commitment to the sponge
    /// state it was made under. None = cryptographically many (field-size challenges). The
    /// linear-code schemes without the well-formedness check are bound only through their
    /// t column indices in [0, n_ext_cols): at toy sizes that is a handful of bits.
    #[cfg(feature = "full")]
    fn transcript_binding_bits(_vk: &Vk<Self>, _c: &Comm<Self>) -> Option<f64> {
        None
    }
    /// every single-element replacement of a commitment
    fn comm_variants(_c: &Comm<Self>, _seed: u64) -> Vec<(String, Comm<Self>)> {
        vec![]
    }
    /// every single-element replacement of a verifier key
    fn vk_variants(_vk: &Vk<Self>, _seed: u64) -> Vec<(String, Vk<Self>)> {
        vec![]
    }
    /// C12: further serializable artefacts of the scheme that are not reachable through the trait
    #[cfg(feature = "full")]
    fn io_extra(_ctx: &mut crate::props::c12::IoCtx, _sess: &crate::session::Sess<Self>) {}
    /// sum_i coeff_i * commitment_i for the schemes whose LC path is homomorphic (None otherwise)
    #[cfg(feature = "full")]
    fn combine_comms(_terms: &[(Self::F, &Comm<Self>)]) -> Option<Comm<Self>> {
        None
    }
    /// C10: the scheme's published verification relation, evaluated by the harness's own code with
    /// the same challenge derivation (None = no reference implementation)
    #[cfg(feature = "full")]
    fn reference_check(
        _vk: &Vk<Self>,
        _comms: &[&ark_poly_commit::LabeledCommitment<Comm<Self>>],
        _z: &Self::Pt,
        _values: &[Self::F],
        _proof: &Proof<Self>,
        _sp: &mut crate::seams::TraceSponge<Self::F>,
    ) -> Option<bool> {
        None
    }
}

pub type PcOf<S> = <S as Scheme>::PC;
pub type Pp<S> = <PcOf<S> as PolynomialCommitment<<S as Scheme>::F, <S as Scheme>::P>>::UniversalParams;
pub type Ck<S> = <PcOf<S> as PolynomialCommitment<<S as Scheme>::F, <S as Scheme>::P>>::CommitterKey;
pub type Vk<S> = <PcOf<S> as PolynomialCommitment<<S as Scheme>::F, <S as Scheme>::P>>::VerifierKey;
pub type Comm<S> = <PcOf<S> as PolynomialCommitment<<S as Scheme>::F, <S as Scheme>::P>>::Commitment;
pub type State<S> = <PcOf<S> as PolynomialCommitment<<S as Scheme>::F, <S as Scheme>::P>>::CommitmentState;
pub type Proof<S> = <PcOf<S> as PolynomialCommitment<<S as Scheme>::F, <S as Scheme>::P>>::Proof;
pub type BatchProof<S> = <PcOf<S> as PolynomialCommitment<<S as Scheme>::F, <S as Scheme>::P>>::BatchProof;
pub type PcErr<S> = <PcOf<S> as PolynomialCommitment<<S as Scheme>::F, <S as Scheme>::P>>::Error;

pub trait CurveName {
    const CURVE: &'static str;
}
impl CurveName for ark_bls12_381::Bls12_381 {
    const CURVE: &'static str = "bls12_381";
}
impl CurveName for ark_bls12_377::Bls12_377 {
    const CURVE: &'static str = "bls12_377";
}
impl CurveName for ark_bn254::Bn254 {
    const CURVE: &'static str = "bn254";
}
impl<P: ark_ec::short_weierstrass::SWCurveConfig + CurveName> CurveName for ark_ec::short_weierstrass::Affine<P> {
    const CURVE: &'static str = P::CURVE;
}
impl<P: ark_ec::twisted_edwards::TECurveConfig + CurveName> CurveName for ark_ec::twisted_edwards::Affine<P> {
    const CURVE: &'static str = P::CURVE;
}
impl CurveName for ark_ed_on_bls12_381::EdwardsConfig {
    const CURVE: &'static str = "ed_on_bls12_381";
}
impl CurveName for ark_bls12_381::g1::Config {
    const CURVE: &'static str = "bls12_381_g1";
}
impl CurveName for ark_bls12_377::g1::Config {
    const CURVE: &'static str = "bls12_377_g1";
}
impl CurveName for ark_bn254::g1::Config {
    const CURVE: &'static str = "bn254_g1";
}
impl CurveName for ark_bls12_381::Fr {
    const CURVE: &'static str = "bls12_381_fr";
}
impl CurveName for ark_bls12_377::Fr {
    const CURVE: &'static str = "bls12_377_fr";
}

pub struct MarlinS<E>(PhantomData<E>);
impl<E: Pairing + CurveName> Scheme for MarlinS<E>
where
    E::ScalarField: Absorb,
{
    type F = E::ScalarField;
    type P = UPoly<E::ScalarField>;
    type Pt = E::ScalarField;
    type PC = MarlinKZG10<E, UPoly<E::ScalarField>>;
    const FAMILY: Family = Family::Marlin;
    fn name() -> String {
        format!("marlin-{}", E::CURVE)
    }
    #[cfg(feature = "full")]
    fn combine_comms(terms: &[(Self::F, &Comm<Self>)]) -> Option<Comm<Self>> {
        use ark_ec::{AffineRepr, CurveGroup};
        use std::ops::Mul;
        let mut c = E::G1::default();
        let mut sh: Option<E::G1> = None;
        for (k, cm) in terms {
            c += cm.comm.0.mul(*k);
            if let Some(s) = &cm.shifted_comm {
                let cur = s.0.mul(*k);
                sh = Some(sh.map_or(cur, |x| x + cur));
            }
        }
        Some(ark_poly_commit::marlin_pc::Commitment { comm: ark_poly_commit::kzg10::Commitment(c.into_affine()), shifted_comm: sh.map(|x| ark_poly_commit::kzg10::Commitment(x.into_affine())) })
    }
    #[cfg(feature = "full")]
    fn comm_variants(c: &Comm<Self>, seed: u64) -> Vec<(String, Comm<Self>)> {
        crate::surgery::marlin_comm_variants::<E>(c, seed)
    }
    #[cfg(feature = "full")]
    fn vk_variants(vk: &Vk<Self>, seed: u64) -> Vec<(String, Vk<Self>)> {
        crate::surgery::marlin_vk_variants::<E>(vk, seed)
    }
    #[cfg(feature = "full")]
    fn reference_check(vk: &Vk<Self>, comms: &[&ark_poly_commit::LabeledCommitment<Comm<Self>>], z: &Self::Pt, values: &[Self::F], proof: &Proof<Self>, sp: &mut crate::seams::TraceSponge<Self::F>) -> Option<bool> {
        Some(crate::refcheck::marlin_ref::<E>(vk, comms, z, values, proof, sp))
    }
    #[cfg(feature = "full")]
    fn hiding_audit(ck: &Ck<Self>, lp: &ark_poly_commit::LabeledPolynomial<Self::F, Self::P>, comm: &Comm<Self>, plain: Option<&Comm<Self>>, state: &State<Self>) -> Option<Vec<String>> {
        plain.map(|pl| crate::hiding::marlin_audit::<E>(ck, lp, comm, pl, state))
    }
    #[cfg(feature = "full")]
    fn proof_blinding_bytes(p: &Proof<Self>) -> Option<Vec<u8>> {
        p.random_v.map(|v| { let mut b = vec![]; v.serialize_compressed(&mut b).unwrap(); b })
    }
    #[cfg(feature = "full")]
    fn random_v_check(p: &Proof<Self>, lps: &[&ark_poly_commit::LabeledPolynomial<Self::F, Self::P>], states: &[&State<Self>], z: &Self::Pt, ch: &[Self::F]) -> Option<(Option<Self::F>, Option<Self::F>)> {
        use ark_ff::Zero;
        let mut c = 0;
        let mut acc = Self::F::zero();
        let mut any = false;
        for (lp, st) in lps.iter().zip(states.iter()) {
            let xi = *ch.get(c)?;
            c += 1;
            acc += xi * crate::hiding::eval_uv(&st.rand.blinding_polynomial, z);
            any |= lp.hiding_bound().is_some();
            if lp.degree_bound().is_some() {
                let xi1 = *ch.get(c)?;
                c += 1;
                if let Some(sr) = &st.shifted_rand { acc += xi1 * crate::hiding::eval_uv(&sr.blinding_polynomial, z); }
            }
        }
        Some((p.random_v, if any { Some(acc) } else { None }))
    }
    #[cfg(feature = "full")]
    fn proof_variants(p: &Proof<Self>, seed: u64) -> Vec<(String, Proof<Self>)> {
        crate::surgery::kzg_proof_variants::<E>(p, seed)
    }
    fn comm_without_shifted(c: &Comm<Self>) -> Option<Comm<Self>> {
        c.shifted_comm.map(|_| ark_poly_commit::marlin_pc::Commitment { comm: c.comm, shifted_comm: None })
    }
    fn comm_with_shifted_of(c: &Comm<Self>, o: &Comm<Self>) -> Option<Comm<Self>> {
        o.shifted_comm.map(|s| ark_poly_commit::marlin_pc::Commitment { comm: c.comm, shifted_comm: Some(s) })
    }
    fn comm_with_identity_shift(c: &Comm<Self>) -> Option<Comm<Self>> {
        Some(ark_poly_commit::marlin_pc::Commitment { comm: c.comm, shifted_comm: Some(ark_poly_commit::kzg10::Commitment(<E::G1Affine as ark_ec::AffineRepr>::zero())) })
    }
}
pub struct SonicS<E>(PhantomData<E>);
impl<E: Pairing + CurveName> Scheme for SonicS<E>
where
    E::ScalarField: Absorb,
{
    type F = E::ScalarField;
    type P = UPoly<E::ScalarField>;
    type Pt = E::ScalarField;
    type PC = SonicKZG10<E, UPoly<E::ScalarField>>;
    const FAMILY: Family = Family::Sonic;
    fn name() -> String {
        format!("sonic-{}", E::CURVE)
    }
    #[cfg(feature = "full")]
    fn combine_comms(terms: &[(Self::F, &Comm<Self>)]) -> Option<Comm<Self>> {
        use ark_ec::CurveGroup;
        use std::ops::Mul;
        let mut c = E::G1::default();
        for (k, cm) in terms {
            c += cm.0.mul(*k);
        }
        Some(ark_poly_commit::kzg10::Commitment(c.into_affine()))
    }
    #[cfg(feature = "full")]
    fn comm_variants(c: &Comm<Self>, seed: u64) -> Vec<(String, Comm<Self>)> {
        crate::surgery::sonic_comm_variants::<E>(c, seed)
    }
    #[cfg(feature = "full")]
    fn vk_variants(vk: &Vk<Self>, seed: u64) -> Vec<(String, Vk<Self>)> {
        crate::surgery::sonic_vk_variants::<E>(vk, seed)
    }
    #[cfg(feature = "full")]
    fn reference_check(vk: &Vk<Self>, comms: &[&ark_poly_commit::LabeledCommitment<Comm<Self>>], z: &Self::Pt, values: &[Self::F], proof: &Proof<Self>, sp: &mut crate::seams::TraceSponge<Self::F>) -> Option<bool> {
        Some(crate::refcheck::sonic_ref::<E>(vk, comms, z, values, proof, sp))
    }
    #[cfg(feature = "full")]
    fn hiding_audit(ck: &Ck<Self>, lp: &ark_poly_commit::LabeledPolynomial<Self::F, Self::P>, comm: &Comm<Self>, plain: Option<&Comm<Self>>, state: &State<Self>) -> Option<Vec<String>> {
        plain.map(|pl| crate::hiding::sonic_audit::<E>(ck, lp, comm, pl, state))
    }
    #[cfg(feature = "full")]
    fn proof_blinding_bytes(p: &Proof<Self>) -> Option<Vec<u8>> {
        p.random_v.map(|v| { let mut b = vec![]; v.serialize_compressed(&mut b).unwrap(); b })
    }
    #[cfg(feature = "full")]
    fn random_v_check(p: &Proof<Self>, lps: &[&ark_poly_commit::LabeledPolynomial<Self::F, Self::P>], states: &[&State<Self>], z: &Self::Pt, ch: &[Self::F]) -> Option<(Option<Self::F>, Option<Self::F>)> {
        use ark_ff::Zero;
        let mut acc = Self::F::zero();
        let mut any = false;
        for (i, (lp, st)) in lps.iter().zip(states.iter()).enumerate() {
            acc += *ch.get(i)? * crate::hiding::eval_uv(&st.blinding_polynomial, z);
            any |= lp.hiding_bound().is_some();
        }
        Some((p.random_v, if any { Some(acc) } else { None }))
    }
    #[cfg(feature = "full")]
    fn proof_variants(p: &Proof<Self>, seed: u64) -> Vec<(String, Proof<Self>)> {
        crate::surgery::kzg_proof_variants::<E>(p, seed)
    }
}
pub struct IpaS<G>(PhantomData<G>);
impl<G: AffineRepr + CurveName> Scheme for IpaS<G>
where
    G::ScalarField: Absorb,
    G::Group: ark_ec::VariableBaseMSM<MulBase = G>,
{
    type F = G::ScalarField;
    type P = UPoly<G::ScalarField>;
    type Pt = G::ScalarField;
    type PC = InnerProductArgPC<G, Blake2s256, UPoly<G::ScalarField>>;
    const FAMILY: Family = Family::Ipa;
    fn name() -> String {
        format!("ipa-{}", G::CURVE)
    }
    #[cfg(feature = "full")]
    fn forged_claims(
        scn: &crate::scenario::Scenario,
        sess: &crate::session::Sess<Self>,
        op: &crate::scenario::Op,
        honest: &crate::session::Claim<Self>,
        pos: usize,
        pre_verifier: &crate::seams::TraceSponge<Self::F>,
        f: &crate::scenario::Fault,
    ) -> Vec<(String, crate::session::Claim<Self>)> {
        crate::ipa_forge::forge::<Self, G>(scn, sess, op, honest, pos, pre_verifier, f)
    }
    #[cfg(feature = "full")]
    fn combine_comms(terms: &[(Self::F, &Comm<Self>)]) -> Option<Comm<Self>> {
        use ark_ec::CurveGroup;
        use std::ops::Mul;
        let mut c = G::Group::default();
        let mut sh: Option<G::Group> = None;
        for (k, cm) in terms {
            c += cm.comm.mul(*k);
            if let Some(s) = &cm.shifted_comm {
                let cur = s.mul(*k);
                sh = Some(sh.map_or(cur, |x| x + cur));
            }
        }
        Some(ark_poly_commit::ipa_pc::Commitment { comm: c.into_affine(), shifted_comm: sh.map(|x| x.into_affine()) })
    }
    #[cfg(feature = "full")]
    fn comm_variants(c: &Comm<Self>, seed: u64) -> Vec<(String, Comm<Self>)> {
        crate::surgery::ipa_comm_variants::<G>(c, seed)
    }
    #[cfg(feature = "full")]
    fn vk_variants(vk: &Vk<Self>, seed: u64) -> Vec<(String, Vk<Self>)> {
        crate::surgery::ipa_vk_variants::<G>(vk, seed)
    }
    #[cfg(feature = "full")]
    fn reference_check(vk: &Vk<Self>, comms: &[&ark_poly_commit::LabeledCommitment<Comm<Self>>], z: &Self::Pt, values: &[Self::F], proof: &Proof<Self>, sp: &mut crate::seams::TraceSponge<Self::F>) -> Option<bool> {
        Some(crate::refcheck::ipa_ref::<G>(vk, comms, z, values, proof, sp))
    }
    #[cfg(feature = "full")]
    fn hiding_audit(ck: &Ck<Self>, lp: &ark_poly_commit::LabeledPolynomial<Self::F, Self::P>, comm: &Comm<Self>, plain: Option<&Comm<Self>>, state: &State<Self>) -> Option<Vec<String>> {
        plain.map(|pl| crate::hiding::ipa_audit::<G>(ck, lp, comm, pl, state))
    }
    #[cfg(feature = "full")]
    fn proof_blinding_bytes(p: &Proof<Self>) -> Option<Vec<u8>> {
        match (p.hiding_comm, p.rand) {
            (Some(h), Some(r)) => { let mut b = vec![]; h.serialize_compressed(&mut b).unwrap(); r.serialize_compressed(&mut b).unwrap(); Some(b) }
            _ => None,
        }
    }
    #[cfg(feature = "full")]
    fn proof_variants(p: &Proof<Self>, seed: u64) -> Vec<(String, Proof<Self>)> {
        crate::surgery::ipa_proof_variants::<G>(p, seed)
    }
    fn comm_without_shifted(c: &Comm<Self>) -> Option<Comm<Self>> {
        c.shifted_comm.map(|_| ark_poly_commit::ipa_pc::Commitment { comm: c.comm, shifted_comm: None })
    }
    fn comm_with_shifted_of(c: &Comm<Self>, o: &Comm<Self>) -> Option<Comm<Self>> {
        o.shifted_comm.map(|s| ark_poly_commit::ipa_pc::Commitment { comm: c.comm, shifted_comm: Some(s) })
    }
    fn comm_with_identity_shift(c: &Comm<Self>) -> Option<Comm<Self>> {
        Some(ark_poly_commit::ipa_pc::Commitment { comm: c.comm, shifted_comm: Some(<G as ark_ec::AffineRepr>::zero()) })
    }
    fn comm_with_surplus_shift(c: &Comm<Self>, o: &Comm<Self>) -> Option<Comm<Self>> {
        Some(ark_poly_commit::ipa_pc::Commitment { comm: c.comm, shifted_comm: Some(o.comm) })
    }
}
pub struct Pst13S<E>(PhantomData<E>);
impl<E: Pairing + CurveName> Scheme for Pst13S<E>
where
    E::ScalarField: Absorb,
{
    type F = E::ScalarField;
    type P = MvPoly<E::ScalarField>;
    type Pt = Vec<E::ScalarField>;
    type PC = MarlinPST13<E, MvPoly<E::ScalarField>>;
    const FAMILY: Family = Family::Pst13;
    fn name() -> String {
        format!("pst13-{}", E::CURVE)
    }
    #[cfg(feature = "full")]
    fn combine_comms(terms: &[(Self::F, &Comm<Self>)]) -> Option<Comm<Self>> {
        use ark_ec::{AffineRepr, CurveGroup};
        use std::ops::Mul;
        let mut c = E::G1::default();
        let mut sh: Option<E::G1> = None;
        for (k, cm) in terms {
            c += cm.comm.0.mul(*k);
            if let Some(s) = &cm.shifted_comm {
                let cur = s.0.mul(*k);
                sh = Some(sh.map_or(cur, |x| x + cur));
            }
        }
        Some(ark_poly_commit::marlin_pc::Commitment { comm: ark_poly_commit::kzg10::Commitment(c.into_affine()), shifted_comm: sh.map(|x| ark_poly_commit::kzg10::Commitment(x.into_affine())) })
    }
    #[cfg(feature = "full")]
    fn comm_variants(c: &Comm<Self>, seed: u64) -> Vec<(String, Comm<Self>)> {
        crate::surgery::marlin_comm_variants::<E>(c, seed)
    }
    #[cfg(feature = "full")]
    fn vk_variants(vk: &Vk<Self>, seed: u64) -> Vec<(String, Vk<Self>)> {
        crate::surgery::pst13_vk_variants::<E>(vk, seed)
    }
    /// "extra variable": the query point gets one more coordinate e and the proof one more witness
    /// commitment (t/e)*G. A verifier that folds every w_j * z_j into the commitment side but pairs
    /// only the first num_vars witnesses shifts the claimed value by t/xi for free.
    #[cfg(feature = "full")]
    fn forged_claims(
        scn: &crate::scenario::Scenario,
        sess: &crate::session::Sess<Self>,
        op: &crate::scenario::Op,
        honest: &crate::session::Claim<Self>,
        pos: usize,
        pre_verifier: &crate::seams::TraceSponge<Self::F>,
        f: &crate::scenario::Fault,
    ) -> Vec<(String, crate::session::Claim<Self>)> {
        use crate::scenario::Op;
        use crate::session::Claim;
        use ark_crypto_primitives::sponge::{CryptographicSponge, FieldElementSize};
        use ark_ec::CurveGroup;
        use ark_ff::{Field, UniformRand, Zero};
        use std::ops::Mul;
        let mut out = vec![];
        let (Op::Open { polys, point }, Claim::Open { labels, point: z, values, proof }) = (op, honest) else { return out };
        if polys.len() != 1 || pos != 0 || scn.polys[polys[0]].degree_bound.is_some() {
            return out;
        }
        let xi: Self::F = pre_verifier.fork().squeeze_field_elements_with_sizes::<Self::F>(&[FieldElementSize::Truncated(128)])[0];
        let t: Self::F = loop {
            let x = Self::F::rand(&mut crate::seams::stream(scn.seed, "pst13-forge", f.param));
            if !x.is_zero() { break x; }
        };
        let Some(xi_inv) = xi.inverse() else { return out };
        let e = Self::F::from(7u64);
        let mut z2 = z.clone();
        z2.push(e);
        let mut p2 = proof.clone();
        p2.w.push(sess.verifier.vk.g.mul(t * e.inverse().unwrap()).into_affine());
        let claimed = values[0] + t * xi_inv;
        out.push(("extra-variable/check".to_string(), Claim::Open { labels: labels.clone(), point: z2.clone(), values: vec![claimed], proof: p2.clone() }));
        let mut qs = ark_poly_commit::QuerySet::<Self::Pt>::new();
        qs.insert((labels[0].clone(), (scn.points[*point].label.clone(), z2.clone())));
        let mut evals = ark_poly_commit::Evaluations::<Self::Pt, Self::F>::new();
        evals.insert((labels[0].clone(), z2), claimed);
        out.push(("extra-variable/batch_check".to_string(), Claim::Batch { qs, evals, proof: vec![p2].into() }));
        out
    }
    #[cfg(feature = "full")]
    fn reference_check(vk: &Vk<Self>, comms: &[&ark_poly_commit::LabeledCommitment<Comm<Self>>], z: &Self::Pt, values: &[Self::F], proof: &Proof<Self>, sp: &mut crate::seams::TraceSponge<Self::F>) -> Option<bool> {
        Some(crate::refcheck::pst13_ref::<E>(vk, comms, z, values, proof, sp))
    }
    #[cfg(feature = "full")]
    fn hiding_audit(ck: &Ck<Self>, lp: &ark_poly_commit::LabeledPolynomial<Self::F, Self::P>, comm: &Comm<Self>, plain: Option<&Comm<Self>>, state: &State<Self>) -> Option<Vec<String>> {
        plain.map(|pl| crate::hiding::pst13_audit::<E>(ck, lp, comm, pl, state))
    }
    #[cfg(feature = "full")]
    fn proof_blinding_bytes(p: &Proof<Self>) -> Option<Vec<u8>> {
        p.random_v.map(|v| { let mut b = vec![]; v.serialize_compressed(&mut b).unwrap(); b })
    }
    #[cfg(feature = "full")]
    fn random_v_check(p: &Proof<Self>, lps: &[&ark_poly_commit::LabeledPolynomial<Self::F, Self::P>], states: &[&State<Self>], z: &Self::Pt, ch: &[Self::F]) -> Option<(Option<Self::F>, Option<Self::F>)> {
        use ark_ff::Zero;
        let mut acc = Self::F::zero();
        let mut any = false;
        for (i, (lp, st)) in lps.iter().zip(states.iter()).enumerate() {
            acc += *ch.get(i)? * st.blinding_polynomial.eval_ref(z);
            any |= lp.hiding_bound().is_some();
        }
        Some((p.random_v, if any { Some(acc) } else { None }))
    }
    #[cfg(feature = "full")]
    fn proof_variants(p: &Proof<Self>, seed: u64) -> Vec<(String, Proof<Self>)> {
        crate::surgery::pst_proof_variants::<E>(p, seed)
    }
}
pub struct HyraxS<G>(PhantomData<G>);
impl<G: AffineRepr + CurveName> Scheme for HyraxS<G>
where
    G::ScalarField: Absorb,
    G::Group: ark_ec::VariableBaseMSM<MulBase = G>,
{
    type F = G::ScalarField;
    type P = MlPoly<G::ScalarField>;
    type Pt = Vec<G::ScalarField>;
    type PC = HyraxPC<G, MlPoly<G::ScalarField>>;
    const FAMILY: Family = Family::Hyrax;
    fn name() -> String {
        format!("hyrax-{}", G::CURVE)
    }
    #[cfg(feature = "full")]
    fn comm_variants(c: &Comm<Self>, seed: u64) -> Vec<(String, Comm<Self>)> {
        crate::surgery::hyrax_comm_variants::<G>(c, seed)
    }
    #[cfg(feature = "full")]
    fn vk_variants(vk: &Vk<Self>, seed: u64) -> Vec<(String, Vk<Self>)> {
        crate::surgery::hyrax_vk_variants::<G>(vk, seed)
    }
    #[cfg(feature = "full")]
    fn reference_check(vk: &Vk<Self>, comms: &[&ark_poly_commit::LabeledCommitment<Comm<Self>>], z: &Self::Pt, values: &[Self::F], proof: &Proof<Self>, sp: &mut crate::seams::TraceSponge<Self::F>) -> Option<bool> {
        Some(crate::refcheck::hyrax_ref::<G>(vk, comms, z, values, proof, sp))
    }
    #[cfg(feature = "full")]
    fn hiding_audit(ck: &Ck<Self>, _lp: &ark_poly_commit::LabeledPolynomial<Self::F, Self::P>, comm: &Comm<Self>, _plain: Option<&Comm<Self>>, state: &State<Self>) -> Option<Vec<String>> {
        let m: crate::surgery::HyraxStateMirror<Self::F> = crate::surgery::to_mirror(state)?;
        Some(crate::hiding::hyrax_audit::<G>(&ck.com_key, ck.h, &comm.row_coms, &m.randomness, &m.entries))
    }
    #[cfg(feature = "full")]
    fn proof_blinding_bytes(p: &Proof<Self>) -> Option<Vec<u8>> {
        let mut b = vec![];
        p.serialize_compressed(&mut b).ok()?;
        Some(b)
    }
    #[cfg(feature = "full")]
    fn proof_variants(p: &Proof<Self>, seed: u64) -> Vec<(String, Proof<Self>)> {
        crate::surgery::hyrax_proof_variants::<G>(p, seed)
    }
}
pub struct ULigeroS<F>(PhantomData<F>);
impl<F: PrimeField + Absorb + CurveName> Scheme for ULigeroS<F> {
    type F = F;
    type P = UPoly<F>;
    type Pt = F;
    type PC = LinearCodePCS<UnivariateLigero<F, MT, UPoly<F>, CH<F>>, F, UPoly<F>, MT, CH<F>>;
    const FAMILY: Family = Family::ULigero;
    fn name() -> String {
        format!("uligero-{}", F::CURVE)
    }
    #[cfg(feature = "full")]
    fn transcript_binding_bits(vk: &Vk<Self>, c: &Comm<Self>) -> Option<f64> {
        use ark_poly_commit::linear_codes::LinCodeParametersInfo;
        if vk.check_well_formedness() {
            return None;
        }
        let m: crate::surgery::LcCommMirror<MT> = crate::surgery::to_mirror(c)?;
        let t = crate::lincode::calculate_t::<F>(vk.sec_param(), vk.distance(), m.n_ext_cols)?;
        Some(t as f64 * (m.n_ext_cols as f64).log2())
    }
    fn alt_setup(cfg: &KeyCfg, _rng: &mut dyn RngCore) -> Option<Pp<Self>> {
        cfg.lincode.as_ref().map(|k| ark_poly_commit::linear_codes::LigeroPCParams::new(k.sec_param, k.rho_inv, k.check_well_formedness, (), (), ()))
    }
    #[cfg(feature = "full")]
    fn comm_variants(c: &Comm<Self>, seed: u64) -> Vec<(String, Comm<Self>)> {
        crate::surgery::lincode_comm_variants::<MT, Comm<Self>>(c, seed)
    }
    #[cfg(feature = "full")]
    fn vk_variants(vk: &Vk<Self>, seed: u64) -> Vec<(String, Vk<Self>)> {
        { let _ = (vk, seed); vec![] }
    }
    #[cfg(feature = "full")]
    fn reference_check(vk: &Vk<Self>, comms: &[&ark_poly_commit::LabeledCommitment<Comm<Self>>], z: &Self::Pt, values: &[Self::F], proof: &Proof<Self>, sp: &mut crate::seams::TraceSponge<Self::F>) -> Option<bool> {
        Some(crate::refcheck::lincode_ref::<F, UPoly<F>, UnivariateLigero<F, MT, UPoly<F>, CH<F>>, Comm<Self>, Proof<Self>>(vk, comms, z, values, proof, sp))
    }
    #[cfg(feature = "full")]
    fn proof_variants(p: &Proof<Self>, seed: u64) -> Vec<(String, Proof<Self>)> {
        crate::surgery::lincode_proof_variants::<F, MT, Proof<Self>>(p, seed)
    }
    #[cfg(feature = "full")]
    fn forged_claims(
        scn: &crate::scenario::Scenario,
        sess: &crate::session::Sess<Self>,
        op: &crate::scenario::Op,
        honest: &crate::session::Claim<Self>,
        pos: usize,
        pre_verifier: &crate::seams::TraceSponge<Self::F>,
        f: &crate::scenario::Fault,
    ) -> Vec<(String, crate::session::Claim<Self>)> {
        crate::lincode::forge::<Self, UnivariateLigero<F, MT, UPoly<F>, CH<F>>>(scn, sess, op, honest, pos, pre_verifier, f)
    }
}
pub struct MLigeroS<F>(PhantomData<F>);
impl<F: PrimeField + Absorb + CurveName> Scheme for MLigeroS<F> {
    type F = F;
    type P = MlPoly<F>;
    type Pt = Vec<F>;
    type PC = LinearCodePCS<MultilinearLigero<F, MT, MlPoly<F>, CH<F>>, F, MlPoly<F>, MT, CH<F>>;
    const FAMILY: Family = Family::MLigero;
    fn name() -> String {
        format!("mligero-{}", F::CURVE)
    }
    #[cfg(feature = "full")]
    fn transcript_binding_bits(vk: &Vk<Self>, c: &Comm<Self>) -> Option<f64> {
        use ark_poly_commit::linear_codes::LinCodeParametersInfo;
        if vk.check_well_formedness() {
            return None;
        }
        let m: crate::surgery::LcCommMirror<MT> = crate::surgery::to_mirror(c)?;
        let t = crate::lincode::calculate_t::<F>(vk.sec_param(), vk.distance(), m.n_ext_cols)?;
        Some(t as f64 * (m.n_ext_cols as f64).log2())
    }
    fn alt_setup(cfg: &KeyCfg, _rng: &mut dyn RngCore) -> Option<Pp<Self>> {
        cfg.lincode.as_ref().map(|k| ark_poly_commit::linear_codes::LigeroPCParams::new(k.sec_param, k.rho_inv, k.check_well_formedness, (), (), ()))
    }
    #[cfg(feature = "full")]
    fn comm_variants(c: &Comm<Self>, seed: u64) -> Vec<(String, Comm<Self>)> {
        crate::surgery::lincode_comm_variants::<MT, Comm<Self>>(c, seed)
    }
    #[cfg(feature = "full")]
    fn vk_variants(vk: &Vk<Self>, seed: u64) -> Vec<(String, Vk<Self>)> {
        { let _ = (vk, seed); vec![] }
    }
    #[cfg(feature = "full")]
    fn reference_check(vk: &Vk<Self>, comms: &[&ark_poly_commit::LabeledCommitment<Comm<Self>>], z: &Self::Pt, values: &[Self::F], proof: &Proof<Self>, sp: &mut crate::seams::TraceSponge<Self::F>) -> Option<bool> {
        Some(crate::refcheck::lincode_ref::<F, MlPoly<F>, MultilinearLigero<F, MT, MlPoly<F>, CH<F>>, Comm<Self>, Proof<Self>>(vk, comms, z, values, proof, sp))
    }
    #[cfg(feature = "full")]
    fn proof_variants(p: &Proof<Self>, seed: u64) -> Vec<(String, Proof<Self>)> {
        crate::surgery::lincode_proof_variants::<F, MT, Proof<Self>>(p, seed)
    }
    #[cfg(feature = "full")]
    fn forged_claims(
        scn: &crate::scenario::Scenario,
        sess: &crate::session::Sess<Self>,
        op: &crate::scenario::Op,
        honest: &crate::session::Claim<Self>,
        pos: usize,
        pre_verifier: &crate::seams::TraceSponge<Self::F>,
        f: &crate::scenario::Fault,
    ) -> Vec<(String, crate::session::Claim<Self>)> {
        crate::lincode::forge::<Self, MultilinearLigero<F, MT, MlPoly<F>, CH<F>>>(scn, sess, op, honest, pos, pre_verifier, f)
    }
}
pub struct BrakedownS<F>(PhantomData<F>);
impl<F: PrimeField + Absorb + CurveName> Scheme for BrakedownS<F> {
    type F = F;
    type P = MlPoly<F>;
    type Pt = Vec<F>;
    type PC = LinearCodePCS<MultilinearBrakedown<F, MT, MlPoly<F>, CH<F>>, F, MlPoly<F>, MT, CH<F>>;
    const FAMILY: Family = Family::Brakedown;
    fn name() -> String {
        format!("brakedown-{}", F::CURVE)
    }
    #[cfg(feature = "full")]
    fn transcript_binding_bits(vk: &Vk<Self>, c: &Comm<Self>) -> Option<f64> {
        use ark_poly_commit::linear_codes::LinCodeParametersInfo;
        if vk.check_well_formedness() {
            return None;
        }
        let m: crate::surgery::LcCommMirror<MT> = crate::surgery::to_mirror(c)?;
        let t = crate::lincode::calculate_t::<F>(vk.sec_param(), vk.distance(), m.n_ext_cols)?;
        Some(t as f64 * (m.n_ext_cols as f64).log2())
    }
    fn alt_setup(cfg: &KeyCfg, rng: &mut dyn RngCore) -> Option<Pp<Self>> {
        let mut rng = rng;
        cfg.lincode.as_ref().map(|k| ark_poly_commit::linear_codes::BrakedownPCParams::default(&mut rng, 1 << cfg.num_vars.unwrap_or(1), k.check_well_formedness, (), (), ()))
    }
    #[cfg(feature = "full")]
    fn comm_variants(c: &Comm<Self>, seed: u64) -> Vec<(String, Comm<Self>)> {
        crate::surgery::lincode_comm_variants::<MT, Comm<Self>>(c, seed)
    }
    #[cfg(feature = "full")]
    fn vk_variants(vk: &Vk<Self>, seed: u64) -> Vec<(String, Vk<Self>)> {
        { let _ = (vk, seed); vec![] }
    }
    #[cfg(feature = "full")]
    fn reference_check(vk: &Vk<Self>, comms: &[&ark_poly_commit::LabeledCommitment<Comm<Self>>], z: &Self::Pt, values: &[Self::F], proof: &Proof<Self>, sp: &mut crate::seams::TraceSponge<Self::F>) -> Option<bool> {
        Some(crate::refcheck::lincode_ref::<F, MlPoly<F>, MultilinearBrakedown<F, MT, MlPoly<F>, CH<F>>, Comm<Self>, Proof<Self>>(vk, comms, z, values, proof, sp))
    }
    #[cfg(feature = "full")]
    fn proof_variants(p: &Proof<Self>, seed: u64) -> Vec<(String, Proof<Self>)> {
        crate::surgery::lincode_proof_variants::<F, MT, Proof<Self>>(p, seed)
    }
    #[cfg(feature = "full")]
    fn forged_claims(
        scn: &crate::scenario::Scenario,
        sess: &crate::session::Sess<Self>,
        op: &crate::scenario::Op,
        honest: &crate::session::Claim<Self>,
        pos: usize,
        pre_verifier: &crate::seams::TraceSponge<Self::F>,
        f: &crate::scenario::Fault,
    ) -> Vec<(String, crate::session::Claim<Self>)> {
        crate::lincode::forge::<Self, MultilinearBrakedown<F, MT, MlPoly<F>, CH<F>>>(scn, sess, op, honest, pos, pre_verifier, f)
    }
}

pub struct KzgS<E>(PhantomData<E>);
impl<E: Pairing + CurveName> Scheme for KzgS<E>
where
    E::ScalarField: Absorb,
{
    type F = E::ScalarField;
    type P = UPoly<E::ScalarField>;
    type Pt = E::ScalarField;
    type PC = crate::adapters::Kzg10Adapter<E>;
    const FAMILY: Family = Family::Kzg10;
    fn name() -> String {
        format!("kzg10-{}", E::CURVE)
    }
    #[cfg(feature = "full")]
    fn flat_individual_and(
        vk: &Vk<Self>,
        comms: &[ark_poly_commit::LabeledCommitment<Comm<Self>>],
        qs: &ark_poly_commit::QuerySet<Self::Pt>,
        evals: &ark_poly_commit::Evaluations<Self::Pt, Self::F>,
        proof: &BatchProof<Self>,
    ) -> Option<(bool, String)> {
        use ark_poly_commit::kzg10::KZG10;
        // statements in the order the adapter hands them to KZG10::batch_check: by point label, then by label
        let mut groups: std::collections::BTreeMap<&String, (&Self::Pt, std::collections::BTreeSet<&String>)> = Default::default();
        for (label, (point_label, point)) in qs.iter() {
            groups.entry(point_label).or_insert((point, Default::default())).1.insert(label);
        }
        let mut stmts = vec![];
        for (_, (point, labels)) in groups {
            for l in labels {
                let Some(c) = comms.iter().find(|c| c.label() == l) else { return Some((false, format!("no commitment {l}"))) };
                let Some(v) = evals.get(&(l.clone(), *point)) else { return Some((false, format!("no evaluation {l}"))) };
                stmts.push((c.commitment().clone(), *point, *v));
            }
        }
        let ps: Vec<_> = proof.iter().flat_map(|g| g.iter().cloned()).collect();
        if ps.len() != stmts.len() {
            return Some((false, format!("{} proofs for {} claims", ps.len(), stmts.len())));
        }
        let mut all = true;
        let mut why = String::new();
        for ((c, z, v), p) in stmts.iter().zip(ps.iter()) {
            match KZG10::<E, UPoly<E::ScalarField>>::check(&vk.vk, c, *z, *v, p) {
                Ok(true) => {}
                Ok(false) => { all = false; why = "false".into(); }
                Err(e) => { all = false; why = format!("err {e}"); }
            }
        }
        Some((all, why))
    }
    #[cfg(feature = "full")]
    fn io_extra(ctx: &mut crate::props::c12::IoCtx, sess: &crate::session::Sess<Self>) {
        use ark_poly_commit::kzg10::{Powers, KZG10};
        use ark_serialize::{CanonicalDeserialize, Compress, Validate};
        // the hand-written (de)serializers of the raw scheme: Powers and the bare verifier key
        let powers = sess.prover.ck.powers();
        crate::props::c12::io_check(ctx, "kzg10-powers", &powers, 60);
        crate::props::c12::io_check(ctx, "kzg10-verifier-key", &sess.verifier.vk.vk, 61);
        // committing with reloaded Powers gives the same (non-hiding) commitment
        for c in [Compress::Yes, Compress::No] {
            let b = crate::session::to_bytes(&powers, c);
            if let Ok(p2) = Powers::<E>::deserialize_with_mode(&b[..], c, Validate::Yes) {
                for (i, lp) in sess.prover.polys.iter().enumerate().filter(|(_, lp)| lp.hiding_bound().is_none()).take(1) {
                    if let Ok((cm, _)) = KZG10::<E, UPoly<E::ScalarField>>::commit(&p2, lp.polynomial(), None, None) {
                        if crate::session::to_bytes(&cm, Compress::Yes) != crate::session::to_bytes(sess.prover.comms[i].commitment(), Compress::Yes) {
                            ctx.res.violations.push(crate::props::common::viol(ctx.scn, "io-contract", "decision", "kzg10-powers", "commitment computed with reloaded Powers differs from the one computed with the originals".into()));
                        }
                    }
                }
            } else {
                ctx.res.violations.push(crate::props::common::viol(ctx.scn, "io-contract", "roundtrip", "kzg10-powers", "Powers do not reload".into()));
            }
        }
    }
    #[cfg(feature = "full")]
    fn proof_variants(p: &Proof<Self>, seed: u64) -> Vec<(String, Proof<Self>)> {
        let mut out = vec![];
        for i in 0..p.len().min(2) {
            for (n, q) in crate::surgery::kzg_proof_variants::<E>(&p[i], seed ^ i as u64) {
                let mut l = p.clone();
                l[i] = q;
                out.push((n, l));
            }
        }
        if !p.is_empty() {
            let mut l = p.clone();
            l.pop();
            out.push(("proofs-shorter".to_string(), l));
            let mut l = p.clone();
            l.push(p[0].clone());
            out.push(("proofs-longer".to_string(), l));
        }
        out
    }
    #[cfg(feature = "full")]
    fn comm_variants(c: &Comm<Self>, seed: u64) -> Vec<(String, Comm<Self>)> {
        crate::surgery::sonic_comm_variants::<E>(c, seed)
    }
    #[cfg(feature = "full")]
    fn vk_variants(vk: &Vk<Self>, seed: u64) -> Vec<(String, Vk<Self>)> {
        crate::surgery::kzg_vk_variants::<E>(&vk.vk, seed).into_iter().map(|(n, k)| (n, crate::adapters::KVk { vk: k, supported_degree: vk.supported_degree, max_degree: vk.max_degree })).collect()
    }
    #[cfg(feature = "full")]
    fn reference_check(vk: &Vk<Self>, comms: &[&ark_poly_commit::LabeledCommitment<Comm<Self>>], z: &Self::Pt, values: &[Self::F], proof: &Proof<Self>, _sp: &mut crate::seams::TraceSponge<Self::F>) -> Option<bool> {
        Some(crate::refcheck::kzg_ref::<E>(&vk.vk, comms, z, values, proof))
    }
    #[cfg(feature = "full")]
    fn hiding_audit(ck: &Ck<Self>, lp: &ark_poly_commit::LabeledPolynomial<Self::F, Self::P>, comm: &Comm<Self>, plain: Option<&Comm<Self>>, state: &State<Self>) -> Option<Vec<String>> {
        plain.map(|pl| crate::hiding::kzg_audit::<E>(&ck.powers_of_gamma_g, lp, comm, pl, state))
    }
    #[cfg(feature = "full")]
    fn proof_blinding_bytes(p: &Proof<Self>) -> Option<Vec<u8>> {
        let mut b = vec![];
        for x in p.iter() {
            if let Some(v) = x.random_v { v.serialize_compressed(&mut b).unwrap(); }
        }
        if b.is_empty() { None } else { Some(b) }
    }
}
pub struct MlpcS<E>(PhantomData<E>);
impl<E: Pairing + CurveName> Scheme for MlpcS<E>
where
    E::ScalarField: Absorb,
{
    type F = E::ScalarField;
    type P = MlPoly<E::ScalarField>;
    type Pt = Vec<E::ScalarField>;
    type PC = crate::adapters::MlpcAdapter<E>;
    const FAMILY: Family = Family::Mlpc;
    fn name() -> String {
        format!("mlpc-{}", E::CURVE)
    }
    #[cfg(feature = "full")]
    fn proof_variants(p: &Proof<Self>, seed: u64) -> Vec<(String, Proof<Self>)> {
        crate::surgery::mlpc_proof_variants::<E>(p, seed)
    }
    #[cfg(feature = "full")]
    fn comm_variants(c: &Comm<Self>, seed: u64) -> Vec<(String, Comm<Self>)> {
        crate::surgery::mlpc_comm_variants::<E>(c, seed)
    }
    #[cfg(feature = "full")]
    fn vk_variants(vk: &Vk<Self>, seed: u64) -> Vec<(String, Vk<Self>)> {
        crate::surgery::mlpc_vk_variants::<E>(vk, seed)
    }
    #[cfg(feature = "full")]
    fn reference_check(vk: &Vk<Self>, comms: &[&ark_poly_commit::LabeledCommitment<Comm<Self>>], z: &Self::Pt, values: &[Self::F], proof: &Proof<Self>, _sp: &mut crate::seams::TraceSponge<Self::F>) -> Option<bool> {
        Some(crate::refcheck::mlpc_ref::<E>(&vk.0, comms, z, values, proof))
    }
}

/// All trait-scheme instantiations known to the simulator.
pub const SCHEMES: &[&str] = &[
    "marlin-bls12_381",
    "marlin-bls12_377",
    "marlin-bn254",
    "sonic-bls12_381",
    "sonic-bls12_377",
    "sonic-bn254",
    "ipa-ed_on_bls12_381",
    "ipa-bls12_381_g1",
    "pst13-bls12_381",
    "pst13-bls12_377",
    "hyrax-bls12_381_g1",
    "hyrax-bls12_377_g1",
    "hyrax-bn254_g1",
    "uligero-bls12_381_fr",
    "uligero-bls12_377_fr",
    "mligero-bls12_381_fr",
    "mligero-bls12_377_fr",
    "brakedown-bls12_381_fr",
    "brakedown-bls12_377_fr",
    "kzg10-bls12_381",
    "kzg10-bn254",
    "mlpc-bls12_381",
    "mlpc-bls12_377",
];

pub fn family_of(name: &str) -> Family {
    match name.split('-').next().unwrap() {
        "marlin" => Family::Marlin,
        "sonic" => Family::Sonic,
        "ipa" => Family::Ipa,
        "pst13" => Family::Pst13,
        "hyrax" => Family::Hyrax,
        "uligero" => Family::ULigero,
        "mligero" => Family::MLigero,
        "brakedown" => Family::Brakedown,
        "kzg10" => Family::Kzg10,
        "mlpc" => Family::Mlpc,
        // bespoke driver (props/streaming.rs); shares the univariate workload builders only
        "streaming" => Family::Kzg10,
        other => panic!("unknown scheme family {other}"),
    }
}

/// Dispatch a generic function over the scheme named at run time.
#[macro_export]
macro_rules! with_scheme {
    ($name:expr, $f:ident ( $($args:expr),* )) => {{
        use $crate::schemes::*;
        match $name {
            "marlin-bls12_381" => $f::<MarlinS<ark_bls12_381::Bls12_381>>($($args),*),
            "marlin-bls12_377" => $f::<MarlinS<ark_bls12_377::Bls12_377>>($($args),*),
            "marlin-bn254" => $f::<MarlinS<ark_bn254::Bn254>>($($args),*),
            "sonic-bls12_381" => $f::<SonicS<ark_bls12_381::Bls12_381>>($($args),*),
            "sonic-bls12_377" => $f::<SonicS<ark_bls12_377::Bls12_377>>($($args),*),
            "sonic-bn254" => $f::<SonicS<ark_bn254::Bn254>>($($args),*),
            "ipa-ed_on_bls12_381" => $f::<IpaS<ark_ed_on_bls12_381::EdwardsAffine>>($($args),*),
            "ipa-bls12_381_g1" => $f::<IpaS<ark_bls12_381::G1Affine>>($($args),*),
            "pst13-bls12_381" => $f::<Pst13S<ark_bls12_381::Bls12_381>>($($args),*),
            "pst13-bls12_377" => $f::<Pst13S<ark_bls12_377::Bls12_377>>($($args),*),
            "hyrax-bls12_381_g1" => $f::<HyraxS<ark_bls12_381::G1Affine>>($($args),*),
            "hyrax-bls12_377_g1" => $f::<HyraxS<ark_bls12_377::G1Affine>>($($args),*),
            "hyrax-bn254_g1" => $f::<HyraxS<ark_bn254::G1Affine>>($($args),*),
            "uligero-bls12_381_fr" => $f::<ULigeroS<ark_bls12_381::Fr>>($($args),*),
            "uligero-bls12_377_fr" => $f::<ULigeroS<ark_bls12_377::Fr>>($($args),*),
            "mligero-bls12_381_fr" => $f::<MLigeroS<ark_bls12_381::Fr>>($($args),*),
            "mligero-bls12_377_fr" => $f::<MLigeroS<ark_bls12_377::Fr>>($($args),*),
            "brakedown-bls12_381_fr" => $f::<BrakedownS<ark_bls12_381::Fr>>($($args),*),
            "brakedown-bls12_377_fr" => $f::<BrakedownS<ark_bls12_377::Fr>>($($args),*),
            "kzg10-bls12_381" => $f::<KzgS<ark_bls12_381::Bls12_381>>($($args),*),
            "kzg10-bn254" => $f::<KzgS<ark_bn254::Bn254>>($($args),*),
            "mlpc-bls12_381" => $f::<MlpcS<ark_bls12_381::Bls12_381>>($($args),*),
            "mlpc-bls12_377" => $f::<MlpcS<ark_bls12_377::Bls12_377>>($($args),*),
            other => panic!("unknown scheme {other}"),
        }
    }};
}
