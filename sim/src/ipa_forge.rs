//! Targeted forgery for the inner-product-argument scheme (C03): the hiding branch of the verifier
//! folds `chi * hiding_comm - rand * s` into the combined commitment, where the challenge `chi`
//! must bind `hiding_comm`. An adversary who may choose `hiding_comm` AFTER `chi` is fixed can
//! move the combined commitment anywhere - in particular from xi*C_p to xi*C_q for the q = p + d
//! it actually ran the prover on. The forgery below derives `chi` from every proper subset of the
//! hashed statement that leaves `hiding_comm` out (a correct verifier rejects all of them because
//! its challenge depends on `hiding_comm`), so it probes which inputs the challenge really binds.
use crate::refcheck::{ro_challenge, ser};
use crate::scenario::{Fault, Op, Scenario};
use crate::schemes::*;
use crate::seams::*;
use crate::session::{Claim, Sess};
use ark_crypto_primitives::sponge::{CryptographicSponge, FieldElementSize};
use ark_ec::{AffineRepr, CurveGroup};
use ark_ff::{Field, UniformRand, Zero};
use ark_poly_commit::{ipa_pc, LabeledPolynomial, PolynomialCommitment};
use std::ops::Mul;

pub fn forge<S, G>(scn: &Scenario, sess: &Sess<S>, op: &Op, honest: &Claim<S>, pos: usize, pre_verifier: &TraceSponge<S::F>, f: &Fault) -> Vec<(String, Claim<S>)>
where
    G: AffineRepr<ScalarField = S::F>,
    S: Scheme<P = UPoly<<G as AffineRepr>::ScalarField>, Pt = <G as AffineRepr>::ScalarField>,
    S::PC: PolynomialCommitment<S::F, S::P, Commitment = ipa_pc::Commitment<G>, Proof = ipa_pc::Proof<G>, CommitmentState = ipa_pc::Randomness<G>, CommitterKey = ipa_pc::CommitterKey<G>>,
{
    let mut out = vec![];
    let (Op::Open { polys, point }, Claim::Open { labels, point: z, .. }) = (op, honest) else { return out };
    // single unbounded victim
    if polys.len() != 1 || pos != 0 {
        return out;
    }
    let vi = polys[0];
    // (2) one extra folding round: the committer key padded with identity points commits to
    // q = p + (delta / z^n) X^n exactly as to p (n = key length), q(z) = p(z) + delta, and the
    // library's own prover run on q with the padded key yields a proof with log2(n) + 1 rounds.
    // A verifier that checks the number of rounds refuses it; one that does not truncates the
    // 2n-coefficient check polynomial to its n key elements and accepts any value. Presented to
    // `check`, and as a one-query batch to `batch_check`.
    if scn.polys[vi].degree_bound.is_none() && !z.is_zero() {
        use ark_poly::DenseUVPolynomial;
        let ck = &sess.prover.ck;
        let n = ck.comm_key.len();
        let delta: S::F = loop {
            let x = S::F::rand(&mut stream(scn.seed, "ipa-forge-rounds", f.param));
            if !x.is_zero() {
                break x;
            }
        };
        let mut ck2 = ck.clone();
        ck2.comm_key.extend(std::iter::repeat(G::zero()).take(n));
        let p = sess.prover.polys[vi].polynomial();
        let mut coeffs = p.coeffs().to_vec();
        coeffs.resize(n + 1, S::F::zero());
        coeffs[n] = delta * z.pow([n as u64]).inverse().unwrap();
        let q = LabeledPolynomial::new(labels[0].clone(), UPoly::<S::F>::from_coefficients_vec(coeffs), None, scn.polys[vi].hiding);
        let claimed = q.polynomial().eval_ref(z);
        let cp = sess.prover.comms.get(vi).filter(|c| c.label() == &labels[0]);
        let st = sess.prover.states.get(vi);
        if let (Some(cp), Some(st)) = (cp, st) {
            let mut sp = pre_verifier.fork();
            let mut rng = SimRng::new(scn.seed, "ipa-forge-rounds-rng", f.param);
            if let Outcome::Ok(proof_q) = step(|| PcOf::<S>::open(&ck2, [&q], [cp], z, &mut sp, [st], Some(&mut rng))) {
                if claimed != p.eval_ref(z) && proof_q.l_vec.len() > ark_std::log2(n) as usize {
                    out.push(("extra-round/check".to_string(), Claim::Open { labels: labels.clone(), point: z.clone(), values: vec![claimed], proof: proof_q.clone() }));
                    let mut qs = ark_poly_commit::QuerySet::<S::Pt>::new();
                    qs.insert((labels[0].clone(), (scn.points[*point].label.clone(), z.clone())));
                    let mut evals = ark_poly_commit::Evaluations::<S::Pt, S::F>::new();
                    evals.insert((labels[0].clone(), z.clone()), claimed);
                    out.push(("extra-round/batch_check".to_string(), Claim::Batch { qs, evals, proof: vec![proof_q].into() }));
                }
            }
        }
    }
    if scn.polys[vi].hiding.is_some() || scn.polys[vi].degree_bound.is_some() {
        return out;
    }
    let d: S::F = loop {
        let x = S::F::rand(&mut stream(scn.seed, "ipa-forge", f.param));
        if !x.is_zero() {
            break x;
        }
    };
    let p = sess.prover.polys[vi].polynomial();
    let q = LabeledPolynomial::new(labels[0].clone(), p.add_const(d), None, None);
    let ck = &sess.prover.ck;
    let Outcome::Ok((cq, sq)) = step(|| PcOf::<S>::commit(ck, [&q], None)) else { return out };
    let mut sp = pre_verifier.fork();
    let Outcome::Ok(proof_q) = step(|| PcOf::<S>::open(ck, [&q], [&cq[0]], z, &mut sp, [&sq[0]], None)) else { return out };
    // what the verifier will compute before the hiding branch
    let xi: S::F = pre_verifier.fork().squeeze_field_elements_with_sizes::<S::F>(&[FieldElementSize::Truncated(128)])[0];
    let Some(cp) = sess.verifier.comms.iter().find(|c| c.label() == &labels[0]) else { return out };
    let combined = cp.commitment().comm.mul(xi);
    let claimed = q.polynomial().eval_ref(&sess.points[*point]);
    let v_comb = xi * claimed;
    let target = (cq[0].commitment().comm.into_group() - cp.commitment().comm.into_group()).mul(xi);
    let (mut b_c, mut b_z, mut b_v) = (vec![], vec![], vec![]);
    ser(&mut b_c, &combined.into_affine());
    ser(&mut b_z, z);
    ser(&mut b_v, &v_comb);
    let subsets: Vec<(&str, Vec<u8>)> = vec![
        ("chi(C,z,v)", [b_c.clone(), b_z.clone(), b_v.clone()].concat()),
        ("chi(C,z)", [b_c.clone(), b_z.clone()].concat()),
        ("chi(C)", b_c.clone()),
        ("chi(z,v)", [b_z.clone(), b_v.clone()].concat()),
        ("chi()", vec![]),
    ];
    for (name, bytes) in subsets {
        let chi: S::F = ro_challenge(&bytes);
        let Some(inv) = chi.inverse() else { continue };
        let h = target.mul(inv).into_affine();
        let mut forged = proof_q.clone();
        forged.hiding_comm = Some(h);
        forged.rand = Some(S::F::zero());
        out.push((format!("adaptive-hiding_comm/{name}"), Claim::Open { labels: labels.clone(), point: z.clone(), values: vec![claimed], proof: forged }));
    }
    out
}
