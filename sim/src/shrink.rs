//! Minimisation (DESIGN.md §2.6): delta-debug the scenario while the violation signature persists.
use crate::props::execute;
use crate::scenario::*;

fn remap_ops_after_poly_removal(scn: &mut Scenario, gone: usize) {
    let fix = |i: usize| if i > gone { i - 1 } else { i };
    for op in scn.ops.iter_mut() {
        match op {
            Op::Open { polys, .. } => {
                polys.retain(|&p| p != gone);
                for p in polys.iter_mut() {
                    *p = fix(*p);
                }
            }
            Op::Batch { queries } => {
                queries.retain(|q| q.0 != gone);
                for q in queries.iter_mut() {
                    q.0 = fix(q.0);
                }
            }
            Op::Lc { lcs, .. } => {
                for lc in lcs.iter_mut() {
                    lc.terms.retain(|(_, t)| *t != Some(gone));
                    for (_, t) in lc.terms.iter_mut() {
                        if let Some(i) = t {
                            *i = fix(*i);
                        }
                    }
                }
            }
        }
    }
}

fn remap_ops_after_point_removal(scn: &mut Scenario, gone: usize) {
    let fix = |i: usize| if i > gone { i - 1 } else { i };
    for op in scn.ops.iter_mut() {
        match op {
            Op::Open { point, .. } => {
                if *point == gone {
                    *point = usize::MAX;
                } else {
                    *point = fix(*point);
                }
            }
            Op::Batch { queries } | Op::Lc { queries, .. } => {
                queries.retain(|q| q.1 != gone);
                for q in queries.iter_mut() {
                    q.1 = fix(q.1);
                }
            }
        }
    }
}

/// All one-step simplifications of a scenario (structurally valid ones only).
pub fn candidates(s: &Scenario) -> Vec<Scenario> {
    let mut out = vec![];
    let mut push = |c: Scenario| {
        if c.is_well_formed() && c != *s {
            out.push(c);
        }
    };
    // drop operations (later ones first)
    for i in (0..s.ops.len()).rev() {
        let mut c = s.clone();
        c.ops.remove(i);
        c.faults.retain(|f| f.op != i);
        for f in c.faults.iter_mut() {
            if f.op > i {
                f.op -= 1;
            }
        }
        c.env.restart_prover_before = c.env.restart_prover_before.iter().filter(|&&x| x != i).map(|&x| if x > i { x - 1 } else { x }).collect();
        c.env.restart_verifier_before = c.env.restart_verifier_before.iter().filter(|&&x| x != i).map(|&x| if x > i { x - 1 } else { x }).collect();
        push(c);
    }
    // drop faults
    if s.faults.len() > 1 {
        for i in 0..s.faults.len() {
            let mut c = s.clone();
            c.faults.remove(i);
            push(c);
        }
    }
    // drop polynomials
    for i in (0..s.polys.len()).rev() {
        let mut c = s.clone();
        c.polys.remove(i);
        remap_ops_after_poly_removal(&mut c, i);
        push(c);
    }
    // drop points
    for i in (0..s.points.len()).rev() {
        let mut c = s.clone();
        c.points.remove(i);
        remap_ops_after_point_removal(&mut c, i);
        push(c);
    }
    // drop single queries / LCs / LC terms / listed polys
    for (oi, op) in s.ops.iter().enumerate() {
        match op {
            Op::Batch { queries } if queries.len() > 1 => {
                for q in 0..queries.len() {
                    let mut c = s.clone();
                    if let Op::Batch { queries } = &mut c.ops[oi] {
                        queries.remove(q);
                    }
                    push(c);
                }
            }
            Op::Open { polys, .. } if polys.len() > 1 => {
                for q in 0..polys.len() {
                    let mut c = s.clone();
                    if let Op::Open { polys, .. } = &mut c.ops[oi] {
                        polys.remove(q);
                    }
                    push(c);
                }
            }
            Op::Lc { lcs, queries } => {
                if queries.len() > 1 {
                    for q in 0..queries.len() {
                        let mut c = s.clone();
                        if let Op::Lc { queries, .. } = &mut c.ops[oi] {
                            queries.remove(q);
                        }
                        push(c);
                    }
                }
                if lcs.len() > 1 {
                    for l in (0..lcs.len()).rev() {
                        let mut c = s.clone();
                        if let Op::Lc { lcs, queries } = &mut c.ops[oi] {
                            lcs.remove(l);
                            queries.retain(|q| q.0 != l);
                            for q in queries.iter_mut() {
                                if q.0 > l {
                                    q.0 -= 1;
                                }
                            }
                        }
                        push(c);
                    }
                }
                for (l, lc) in lcs.iter().enumerate() {
                    if lc.terms.len() > 1 {
                        for t in 0..lc.terms.len() {
                            let mut c = s.clone();
                            if let Op::Lc { lcs, .. } = &mut c.ops[oi] {
                                lcs[l].terms.remove(t);
                            }
                            push(c);
                        }
                    }
                    for (t, term) in lc.terms.iter().enumerate() {
                        if !matches!(term.0, Coeff::One) {
                            let mut c = s.clone();
                            if let Op::Lc { lcs, .. } = &mut c.ops[oi] {
                                lcs[l].terms[t].0 = Coeff::One;
                            }
                            push(c);
                        }
                    }
                }
            }
            _ => {}
        }
    }
    // benign environment back to defaults, one knob at a time
    let d = Env::default();
    macro_rules! reset {
        ($field:ident) => {
            if s.env.$field != d.$field {
                let mut c = s.clone();
                c.env.$field = d.$field.clone();
                push(c);
            }
        };
    }
    reset!(io_chunk);
    reset!(io_eintr);
    reset!(prover_perm);
    reset!(verifier_perm);
    reset!(verifier_dup);
    reset!(verifier_bounds_perm);
    reset!(restart_prover_before);
    reset!(restart_verifier_before);
    reset!(sponge_preabsorb);
    if !s.sched.identity {
        let mut c = s.clone();
        c.sched.identity = true;
        push(c);
    }
    if s.sched.threads != 1 {
        let mut c = s.clone();
        c.sched.threads = 1;
        push(c);
    }
    // polynomials: simpler shapes, no hiding, no bound, lower degree
    for i in 0..s.polys.len() {
        let p = &s.polys[i];
        if p.hiding.is_some() {
            let mut c = s.clone();
            c.polys[i].hiding = None;
            push(c);
        }
        if p.degree_bound.is_some() {
            let mut c = s.clone();
            c.polys[i].degree_bound = None;
            push(c);
        }
        if !matches!(p.shape, Shape::Dense | Shape::Const | Shape::Zero) {
            let mut c = s.clone();
            c.polys[i].shape = Shape::Dense;
            push(c);
        }
        if !matches!(p.shape, Shape::Const | Shape::Zero) {
            let mut c = s.clone();
            c.polys[i].shape = Shape::Const;
            c.polys[i].degree = 0;
            push(c);
        }
        if p.degree > 1 {
            for nd in [1, p.degree / 2, p.degree - 1] {
                if nd < p.degree && nd >= 1 {
                    let mut c = s.clone();
                    c.polys[i].degree = nd;
                    push(c);
                }
            }
        }
    }
    // key sizes
    let need_deg = s.polys.iter().map(|p| p.degree.max(p.degree_bound.unwrap_or(0))).max().unwrap_or(1).max(1);
    let need_b = s.cfg.bounds.as_ref().and_then(|b| b.iter().max().copied()).unwrap_or(0);
    let floor = need_deg.max(need_b).max(1);
    if s.cfg.num_vars.is_none() {
        if s.cfg.supported_degree > floor {
            let mut c = s.clone();
            c.cfg.supported_degree = floor;
            push(c);
        }
        if s.cfg.max_degree > s.cfg.supported_degree {
            let mut c = s.clone();
            c.cfg.max_degree = c.cfg.supported_degree;
            push(c);
        }
    }
    if let Some(nv) = s.cfg.num_vars {
        for nnv in [nv.saturating_sub(2), nv.saturating_sub(1)] {
            if nnv < nv {
                let mut c = s.clone();
                c.cfg.num_vars = Some(nnv);
                if c.cfg.max_degree == nv.max(1) && c.cfg.supported_degree == nv.max(1) {
                    // multilinear schemes carry nv in the degree fields too
                    c.cfg.max_degree = nnv.max(1);
                    c.cfg.supported_degree = nnv.max(1);
                    for p in c.polys.iter_mut() {
                        p.degree = nnv;
                    }
                }
                push(c);
            }
        }
    }
    if let Some(b) = &s.cfg.bounds {
        let used: std::collections::BTreeSet<usize> = s.polys.iter().filter_map(|p| p.degree_bound).collect();
        let mut nb: Vec<usize> = used.into_iter().collect();
        nb.sort();
        if &nb != b {
            let mut c = s.clone();
            c.cfg.bounds = Some(nb);
            push(c);
        }
    }
    if s.cfg.supported_hiding > 1 {
        let h = s.polys.iter().filter_map(|p| p.hiding).max().unwrap_or(1).max(1);
        if h < s.cfg.supported_hiding {
            let mut c = s.clone();
            c.cfg.supported_hiding = h;
            push(c);
        }
    }
    out
}

/// Shrink while a violation with the same signature persists. Returns (scenario, executions used).
pub fn shrink(start: &Scenario, signature: &str, max_execs: usize) -> (Scenario, usize) {
    let mut cur = start.clone();
    let mut execs = 0;
    // a scenario that starts inside the scheme's domain must stay inside it while shrinking
    let keep_domain = crate::domain::in_domain(start).is_ok();
    let mut progress = true;
    while progress && execs < max_execs {
        progress = false;
        for c in candidates(&cur) {
            if execs >= max_execs {
                break;
            }
            if keep_domain && crate::domain::in_domain(&c).is_err() {
                continue;
            }
            execs += 1;
            let (res, _) = execute(&c, false);
            if res.harness.is_none() && res.violations.iter().any(|v| v.signature() == signature) {
                cur = c;
                progress = true;
                break;
            }
        }
    }
    (cur, execs)
}
