//! C18 — results do not depend on thread count or on the `parallel` feature (DESIGN.md §3.12).
//! The same scenario is executed under several seeded rayon schedules x thread knobs plus the
//! identity schedule; digests of all deterministic outputs must coincide. Variants B (no
//! `parallel`) and C (real rayon) are compared through `c18-digests` lines by the check script.
use super::common::*;
use super::RunResult;
use crate::gen::{pick_scheme, Gen, THREAD_KNOBS};
use crate::scenario::*;
use crate::schemes::*;
use crate::seams::*;
use crate::session::*;
use ark_serialize::Compress;
use ark_std::rand::Rng;
use sha2::{Digest, Sha256};

pub const SCHEDULES_PER_RUN: usize = 5;

pub fn generate(run_seed: u64) -> Scenario {
    let mut g = Gen::new(run_seed);
    let scheme = pick_scheme(&mut g.r, &|_| true);
    let (cfg, polys) = g.workload(&scheme, 4);
    let points = g.points(3);
    let n_ops = g.r.gen_range(1..=2);
    let ops: Vec<Op> = (0..n_ops).map(|_| g.any_op(&polys, points.len(), 0.2, 0.6)).collect();
    let env = Env { compress: g.r.gen_bool(0.5), validate: true, ..Env::default() };
    // the schedules tried are derived from (seed, k) in the executor; `sched` is the first of them
    let sched = g.sched();
    Scenario { property: "C18".into(), scheme, seed: run_seed, cfg, polys, points, ops, faults: vec![], sched, env }
}

/// (component name, sha256 of its canonical bytes) for every deterministic output of the session
pub fn outputs<S: Scheme>(scn: &Scenario, sched: &Sched, log: &EventLog) -> Result<Vec<(String, String)>, String> {
    outputs_ext::<S>(scn, sched, log, false)
}

/// `with_faults`: also record the verifier's exact decision (accept / false / err / abort) on proofs
/// with one and with two injected defects - "all verification decisions" includes rejections, and
/// which of two defects a data-parallel verifier trips over first must not depend on the schedule
pub fn outputs_ext<S: Scheme>(scn: &Scenario, sched: &Sched, log: &EventLog, with_faults: bool) -> Result<Vec<(String, String)>, String> {
    let mut s2 = scn.clone();
    s2.sched = sched.clone();
    let sha = |b: &[u8]| hex(&Sha256::digest(b)[..16]);
    let mut out = vec![];
    let mut sess = match Sess::<S>::start(&s2, log) {
        Ok(s) => s,
        Err(StartError::Harness(e)) => return Err(format!("start: {e}")),
        Err(StartError::Refused(st, why)) => return Err(format!("refused at {st}: {why}")),
    };
    let hyrax = S::FAMILY == Family::Hyrax;
    out.push(("pp".to_string(), sha(&sess.pp_bytes)));
    out.push(("ck".to_string(), sha(&to_bytes(&sess.prover.ck, Compress::No))));
    out.push(("vk".to_string(), sha(&to_bytes(&sess.verifier.vk, Compress::No))));
    if !hyrax {
        for c in &sess.prover.comms {
            out.push((format!("commitment:{}", c.label()), sha(&to_bytes(c.commitment(), Compress::Yes))));
        }
        for (i, st) in sess.prover.states.iter().enumerate() {
            out.push((format!("state:{}", i), sha(&to_bytes(st, Compress::Yes))));
        }
    }
    for (i, op) in scn.ops.iter().enumerate() {
        match sess.prove(op, i as u64) {
            Outcome::Ok(claim) => {
                if !hyrax {
                    out.push((format!("proof:op{i}"), sha(&claim.proof_bytes())));
                }
                if with_faults {
                    faulted_decisions::<S>(scn, &mut sess, &claim, i, &mut out);
                }
                let (d, _) = sess.verify(&claim, i as u64);
                out.push((format!("decision:op{i}"), d.name().to_string()));
                if !hyrax {
                    // Hyrax absorbs its (thread-local-blinded) commitments and proof elements
                    out.push((format!("sponge:op{i}"), sess.verifier.sponge.state_digest()));
                }
            }
            o => out.push((format!("prove:op{i}"), o.kind().to_string())),
        }
    }
    Ok(out)
}

pub fn digest_of(parts: &[(String, String)]) -> String {
    let mut h = Sha256::new();
    for (k, v) in parts {
        h.update(k.as_bytes());
        h.update(b"=");
        h.update(v.as_bytes());
        h.update(b";");
    }
    hex(&h.finalize()[..16])
}

#[cfg(feature = "shim")]
fn sched_stats() -> (u64, u64, u64, u64, u64) {
    let s = rayon::sim::stats();
    (s.fingerprint, s.jobs, s.nontrivial_perms, s.splits, s.swapped_joins)
}
#[cfg(not(feature = "shim"))]
fn sched_stats() -> (u64, u64, u64, u64, u64) {
    (0, 0, 0, 0, 0)
}

pub fn run<S: Scheme>(scn: &Scenario, log: &EventLog) -> RunResult {
    let mut res = RunResult::default();
    let fam = format!("{:?}", S::FAMILY);
    let quiet = EventLog::new(false);
    // reference execution: identity schedule, one thread
    let ident = Sched { rayon_seed: 0, threads: 1, identity: true };
    let base = match outputs_ext::<S>(scn, &ident, log, true) {
        Ok(b) => b,
        Err(e) => {
            res.stats.probe("vacuous:session-failed");
            log.ev(&format!("vacuous: {e}"));
            return res;
        }
    };
    let base_digest = digest_of(&base);
    log.ev(&format!("identity schedule digest {}", base_digest));
    let mut r = stream(scn.seed, "c18-schedules", 0);
    let mut scheds = vec![scn.sched.clone()];
    for k in 0..SCHEDULES_PER_RUN - 1 {
        scheds.push(Sched { rayon_seed: r.gen(), threads: THREAD_KNOBS[(k + r.gen_range(0..5)) % 5], identity: false });
    }
    // the last schedule is executed twice: a same-seed divergence means entropy bypasses every seam
    let again = scheds.last().unwrap().clone();
    scheds.push(again);
    let mut last: Option<Vec<(String, String)>> = None;
    for (k, sc) in scheds.iter().enumerate() {
        let got = match outputs_ext::<S>(scn, sc, &quiet, true) {
            Ok(g) => g,
            Err(e) => {
                res.violations.push(viol(scn, "cross-schedule", "schedule", "session", format!("session that runs under the identity schedule fails under schedule seed={} threads={}: {e}", sc.rayon_seed, sc.threads)));
                continue;
            }
        };
        let (fp, jobs, perms, splits, joins) = sched_stats();
        res.classes.insert(format!("{fam}|fp{:016x}", fp));
        *res.stats.probes.entry("rayon-jobs".into()).or_default() += jobs;
        *res.stats.probes.entry("rayon-nontrivial-permutations".into()).or_default() += perms;
        *res.stats.probes.entry("rayon-reduction-splits".into()).or_default() += splits;
        *res.stats.probes.entry("rayon-swapped-joins".into()).or_default() += joins;
        res.stats.fire(&format!("schedule/threads={}", sc.threads));
        let d = digest_of(&got);
        log.ev(&format!("schedule {} seed={} threads={} digest {} fingerprint {:016x}", k, sc.rayon_seed, sc.threads, d, fp));
        if got != base {
            let diff: Vec<String> = base.iter().zip(got.iter()).filter(|(a, b)| a != b).map(|(a, _)| a.0.clone()).collect();
            let comp = diff.first().map(|s| s.split(':').next().unwrap().to_string()).unwrap_or_else(|| "shape".into());
            res.violations.push(viol(scn, "cross-schedule", "schedule", &comp, format!("outputs differ between the identity schedule and schedule seed={} threads={}: {:?}", sc.rayon_seed, sc.threads, diff)));
        }
        if k == scheds.len() - 1 {
            if let Some(prev) = &last {
                res.stats.fire("same-schedule-twice");
                if *prev != got {
                    let diff: Vec<String> = prev.iter().zip(got.iter()).filter(|(a, b)| a != b).map(|(a, _)| a.0.clone()).collect();
                    res.violations.push(viol(scn, "same-seed", "entropy-bypass", "session", format!("two executions of the same scenario under the same schedule differ: {:?}", diff)));
                }
            }
        }
        last = Some(got);
    }
    res
}

/// one line per run for the cross-variant comparison: "<index> <scheme> <digest>"
pub fn line<S: Scheme>(scn: &Scenario) -> String {
    let quiet = EventLog::new(false);
    let sc = if cfg!(feature = "shim") { Sched { rayon_seed: 0, threads: 1, identity: true } } else { scn.sched.clone() };
    match outputs::<S>(scn, &sc, &quiet) {
        Ok(parts) => format!("{} {}", digest_of(&parts), parts.iter().map(|(k, v)| format!("{k}={v}")).collect::<Vec<_>>().join(",")),
        Err(e) => format!("ERR {e}"),
    }
}

/// decisions on singly and doubly defective proofs of one operation (deterministic in the scenario)
fn faulted_decisions<S: Scheme>(scn: &Scenario, sess: &mut Sess<S>, claim: &Claim<S>, i: usize, out: &mut Vec<(String, String)>) {
    let pick = |n: usize, k: u64| -> usize { (mix64(scn.seed, "c18-fault", 31 * i as u64 + k) % n.max(1) as u64) as usize };
    let with_proof = |c: &Claim<S>, p: Proof<S>| -> Claim<S> {
        let mut c2 = c.clone();
        match &mut c2 {
            Claim::Open { proof, .. } => *proof = p,
            Claim::Batch { proof, .. } => {
                let mut l: Vec<Proof<S>> = proof.clone().into();
                if !l.is_empty() { l[0] = p; }
                *proof = l.into();
            }
            Claim::Lc { proof, .. } => {
                let mut l: Vec<Proof<S>> = proof.proof.clone().into();
                if !l.is_empty() { l[0] = p; }
                proof.proof = l.into();
            }
        }
        c2
    };
    let first: Option<Proof<S>> = match claim {
        Claim::Open { proof, .. } => Some(proof.clone()),
        Claim::Batch { proof, .. } => { let l: Vec<Proof<S>> = proof.clone().into(); l.into_iter().next() }
        Claim::Lc { proof, .. } => { let l: Vec<Proof<S>> = proof.proof.clone().into(); l.into_iter().next() }
    };
    let Some(p0) = first else { return };
    let v1 = S::proof_variants(&p0, mix64(scn.seed, "c18-v1", i as u64));
    if v1.is_empty() {
        return;
    }
    for k in 0..4u64 {
        let (n1, p1) = &v1[pick(v1.len(), k)];
        let (d, _) = sess.verify_scratch(&with_proof(claim, p1.clone()), 18_000 + k);
        out.push((format!("decision:op{i}:defect[{n1}]"), d.name().to_string()));
        // the surgery helpers assume a well-shaped proof; a first defect may have changed the shape
        let v2 = match step(|| Ok::<_, String>(S::proof_variants(p1, mix64(scn.seed, "c18-v2", 7 * i as u64 + k)))) {
            Outcome::Ok(v) => v,
            _ => vec![],
        };
        if !v2.is_empty() {
            let (n2, p2) = &v2[pick(v2.len(), 100 + k)];
            let (d, _) = sess.verify_scratch(&with_proof(claim, p2.clone()), 18_100 + k);
            out.push((format!("decision:op{i}:defects[{n1}+{n2}]"), d.name().to_string()));
        }
    }
}
