//! Per-property drivers: generator (seed -> scenario) and executor (scenario -> verdicts).
use crate::scenario::Scenario;
use crate::seams::EventLog;
use crate::session::{Stats, Violation};
use std::collections::BTreeSet;

pub mod common;

#[cfg(feature = "full")]
pub mod c01;
#[cfg(feature = "full")]
pub mod c02;
#[cfg(feature = "full")]
pub mod c03;
#[cfg(feature = "full")]
pub mod c04;
#[cfg(feature = "full")]
pub mod c05;
#[cfg(feature = "full")]
pub mod c06;
#[cfg(feature = "full")]
pub mod c07;
#[cfg(feature = "full")]
pub mod c10;
#[cfg(feature = "full")]
pub mod c11;
#[cfg(feature = "full")]
pub mod c12;
#[cfg(feature = "full")]
pub mod c17;
#[cfg(feature = "full")]
pub mod streaming;
pub mod c18;

#[derive(Default)]
pub struct RunResult {
    pub violations: Vec<Violation>,
    pub stats: Stats,
    /// harness-level failure (exit 2), never a VIOLATION
    pub harness: Option<String>,
    /// distinct-state measure: (scheme family, op shape, config class, fault kind, target, decision)
    pub classes: BTreeSet<String>,
    pub log_digest: String,
    pub events: u64,
}

macro_rules! drivers {
    ($( $id:literal => $m:ident ),* $(,)?) => {
        #[cfg(feature = "full")]
        pub fn generate(property: &str, run_seed: u64) -> Scenario {
            if streaming::wants_streaming(property, run_seed) {
                return streaming::generate(property, run_seed);
            }
            match property {
                $( $id => $m::generate(run_seed), )*
                "C18" => c18::generate(run_seed),
                other => panic!("no generator for property {other}"),
            }
        }
        #[cfg(feature = "full")]
        fn dispatch<S: crate::schemes::Scheme>(scn: &Scenario, log: &EventLog) -> RunResult {
            match scn.property.as_str() {
                $( $id => $m::run::<S>(scn, log), )*
                "C18" => c18::run::<S>(scn, log),
                other => RunResult { harness: Some(format!("no executor for property {other}")), ..Default::default() },
            }
        }
    };
}
drivers! {
    "C01" => c01, "C02" => c02, "C03" => c03, "C04" => c04, "C05" => c05, "C06" => c06, "C07" => c07, "C10" => c10,
    "C11" => c11, "C12" => c12, "C17" => c17,
}

#[cfg(not(feature = "full"))]
pub fn generate(property: &str, run_seed: u64) -> Scenario {
    match property {
        "C18" => c18::generate(run_seed),
        other => panic!("this build variant only knows C18, not {other}"),
    }
}
#[cfg(not(feature = "full"))]
fn dispatch<S: crate::schemes::Scheme>(scn: &Scenario, log: &EventLog) -> RunResult {
    match scn.property.as_str() {
        "C18" => c18::run::<S>(scn, log),
        other => RunResult { harness: Some(format!("this build variant only knows C18, not {other}")), ..Default::default() },
    }
}

pub fn execute(scn: &Scenario, keep_log: bool) -> (RunResult, Vec<String>) {
    let log = EventLog::new(keep_log);
    #[cfg(feature = "full")]
    if scn.scheme.starts_with("streaming-") {
        let mut res = streaming::run(scn, &log);
        res.log_digest = log.digest();
        res.events = log.count();
        return (res, log.lines());
    }
    let mut res = crate::with_scheme!(scn.scheme.as_str(), dispatch(scn, &log));
    res.log_digest = log.digest();
    res.events = log.count();
    (res, log.lines())
}

pub fn c18_line(scn: &Scenario) -> String {
    crate::with_scheme!(scn.scheme.as_str(), c18_line_g(scn))
}
fn c18_line_g<S: crate::schemes::Scheme>(scn: &Scenario) -> String {
    c18::line::<S>(scn)
}
