//! Per-property drivers: generator (seed -> scenario) and executor (scenario -> verdicts).
use crate::scenario::Scenario;
use crate::seams::EventLog;
use crate::session::{Stats, Violation};
use std::collections::BTreeSet;

pub mod common;
pub mod c01;
pub mod c02;
pub mod c05;
pub mod c04;
pub mod c17;
pub mod c12;
pub mod c06;
pub mod c11;

#[derive(Default)]
pub struct RunResult {
    pub violations: Vec<Violation>,
    pub stats: Stats,
    /// harness-level failure (exit 2), never a VIOLATION
    pub harness: Option<String>,
    /// distinct-state measure: (scheme family, op shape, config class, fault kind, target, decision)
    pub classes: BTreeSet<String>,
    pub log_digest: String,
    pub events: u64,
}

pub const CLAIMED: &[&str] = &["C01", "C02", "C05"];

pub fn generate(property: &str, run_seed: u64) -> Scenario {
    match property {
        "C01" => c01::generate(run_seed),
        "C02" => c02::generate(run_seed),
        "C05" => c05::generate(run_seed),
        "C04" => c04::generate(run_seed),
        "C17" => c17::generate(run_seed),
        "C12" => c12::generate(run_seed),
        "C06" => c06::generate(run_seed),
        "C11" => c11::generate(run_seed),
        other => panic!("no generator for property {other}"),
    }
}

pub fn execute(scn: &Scenario, keep_log: bool) -> (RunResult, Vec<String>) {
    let log = EventLog::new(keep_log);
    let mut res = match scn.property.as_str() {
        "C01" => crate::with_scheme!(scn.scheme.as_str(), c01_run(scn, &log)),
        "C02" => crate::with_scheme!(scn.scheme.as_str(), c02_run(scn, &log)),
        "C05" => crate::with_scheme!(scn.scheme.as_str(), c05_run(scn, &log)),
        "C04" => crate::with_scheme!(scn.scheme.as_str(), c04_run(scn, &log)),
        "C17" => crate::with_scheme!(scn.scheme.as_str(), c17_run(scn, &log)),
        "C12" => crate::with_scheme!(scn.scheme.as_str(), c12_run(scn, &log)),
        "C06" => crate::with_scheme!(scn.scheme.as_str(), c06_run(scn, &log)),
        "C11" => crate::with_scheme!(scn.scheme.as_str(), c11_run(scn, &log)),
        other => RunResult { harness: Some(format!("no executor for property {other}")), ..Default::default() },
    };
    res.log_digest = log.digest();
    res.events = log.count();
    (res, log.lines())
}

fn c01_run<S: crate::schemes::Scheme>(scn: &Scenario, log: &EventLog) -> RunResult {
    c01::run::<S>(scn, log)
}

fn c02_run<S: crate::schemes::Scheme>(scn: &Scenario, log: &EventLog) -> RunResult {
    c02::run::<S>(scn, log)
}

fn c05_run<S: crate::schemes::Scheme>(scn: &Scenario, log: &EventLog) -> RunResult {
    c05::run::<S>(scn, log)
}

fn c11_run<S: crate::schemes::Scheme>(scn: &Scenario, log: &EventLog) -> RunResult {
    c11::run::<S>(scn, log)
}

fn c06_run<S: crate::schemes::Scheme>(scn: &Scenario, log: &EventLog) -> RunResult {
    c06::run::<S>(scn, log)
}

fn c12_run<S: crate::schemes::Scheme>(scn: &Scenario, log: &EventLog) -> RunResult {
    c12::run::<S>(scn, log)
}

fn c17_run<S: crate::schemes::Scheme>(scn: &Scenario, log: &EventLog) -> RunResult {
    c17::run::<S>(scn, log)
}

fn c04_run<S: crate::schemes::Scheme>(scn: &Scenario, log: &EventLog) -> RunResult {
    c04::run::<S>(scn, log)
}
