//! C01 — completeness under benign faults (DESIGN.md §3.1).
use super::common::*;
use super::RunResult;
use crate::gen::{pick_scheme, Gen};
use crate::scenario::*;
use crate::schemes::*;
use crate::seams::*;
use crate::session::*;
use ark_std::rand::Rng;

pub fn generate(run_seed: u64) -> Scenario {
    let mut g = Gen::new(run_seed);
    let scheme = pick_scheme(&mut g.r, &|_| true);
    let (cfg, polys) = g.workload(&scheme, 5);
    let points = g.points(4);
    let n_ops = g.r.gen_range(1..=3);
    let ops: Vec<Op> = (0..n_ops).map(|_| g.open_or_batch(polys.len(), points.len(), 0.6)).collect();
    let benign = g.r.gen_bool(0.7);
    let env = g.env(n_ops, benign);
    let sched = g.sched();
    Scenario { property: "C01".into(), scheme, seed: run_seed, cfg, polys, points, ops, faults: vec![], sched, env }
}

pub fn run<S: Scheme>(scn: &Scenario, log: &EventLog) -> RunResult {
    let mut res = RunResult::default();
    let fam = format!("{:?}", S::FAMILY);
    let mut sess = match Sess::<S>::start(scn, log) {
        Ok(s) => s,
        Err(StartError::Harness(e)) => {
            // an honest artefact that cannot cross the store/channel is an I/O-contract failure
            res.violations.push(viol(scn, "liveness", "benign-io", "store", e));
            return res;
        }
        Err(StartError::Refused(stage, why)) => {
            res.violations.push(viol(scn, "liveness", "none", stage, format!("in-domain request refused at {stage}: {why}")));
            return res;
        }
    };
    for (i, op) in scn.ops.iter().enumerate() {
        if scn.env.restart_prover_before.contains(&i) {
            if let Err(e) = sess.restart_prover() {
                res.violations.push(viol(scn, "liveness", "restart", "prover-recovery", e));
                break;
            }
        }
        if scn.env.restart_verifier_before.contains(&i) {
            if let Err(e) = sess.restart_verifier() {
                res.violations.push(viol(scn, "liveness", "restart", "verifier-recovery", e));
                break;
            }
        }
        let shape = op_shape(op, scn);
        let claim = match sess.prove(op, i as u64) {
            Outcome::Ok(c) => c,
            o => {
                res.violations.push(viol(scn, "liveness", "none", &format!("prove/{}", shape.split('/').next().unwrap()), format!("honest prover failed on op {i}: {}", o.describe())));
                break;
            }
        };
        let delivered = match claim.through_channel(&scn.env, 500 + i as u64) {
            Ok(c) => c,
            Err(e) => {
                res.violations.push(viol(scn, "liveness", "benign-io", "channel", format!("honest proof lost on the channel at op {i}: {e}")));
                break;
            }
        };
        let (d, why) = sess.verify(&delivered, i as u64);
        res.classes.insert(format!("{fam}|{shape}|{}|benign|{}", cfg_class(scn), d.name()));
        if !d.accepted() {
            res.violations.push(viol(scn, "liveness", "none", &format!("verify/{}", shape.split('/').next().unwrap()), format!("honest proof of true claim not accepted at op {i}: {} {}", d.name(), trunc(&why, 120))));
            break;
        }
    }
    res.stats = sess.stats.clone();
    res
}
