//! C12 — canonical serialization under I/O faults (DESIGN.md §3.10). Every artefact a session
//! produces crosses faulty `Read`/`Write` endpoints; crash points are enumerated per byte offset.
use super::common::*;
use super::RunResult;
use crate::gen::{pick_scheme, Gen};
use crate::scenario::*;
use crate::schemes::*;
use crate::seams::*;
use crate::session::*;
use ark_ff::{One, Zero};
use ark_poly_commit::{LabeledCommitment, PolynomialCommitment};
use ark_serialize::{CanonicalDeserialize, CanonicalSerialize, Compress, Validate};
use ark_std::rand::Rng;

pub fn generate(run_seed: u64) -> Scenario {
    let mut g = Gen::new(run_seed);
    let scheme = pick_scheme(&mut g.r, &|_| true);
    let (cfg, polys) = g.workload(&scheme, 3);
    let points = g.points(2);
    let n_ops = g.r.gen_range(1..=2);
    let mut ops: Vec<Op> = (0..n_ops).map(|_| g.any_op(&polys, points.len(), 0.3, 0.5)).collect();
    // artefact-level corner: a combination made of constants only (queries no polynomial, so the
    // default path transmits a present-but-empty evaluation list); and, rarely, an op of only that
    for op in ops.iter_mut() {
        if let Op::Lc { lcs, queries } = op {
            if g.r.gen_bool(0.3) {
                let konst = LcSpec { label: "konst".into(), terms: vec![(Coeff::Rand(g.r.gen_range(0..1000)), None), (Coeff::One, None)] };
                if g.r.gen_bool(0.5) {
                    *lcs = vec![konst];
                    *queries = vec![(0, 0)];
                } else {
                    lcs.push(konst);
                    queries.push((lcs.len() - 1, 0));
                }
            }
        }
    }
    // artefact-level corner: group elements that are the identity inside Option fields (the
    // degree-bound part of a non-hiding commitment to the zero polynomial)
    let mut polys = polys;
    if g.r.gen_bool(0.2) {
        polys[0].shape = Shape::Zero;
        polys[0].hiding = None;
    }
    let mut env = g.env(n_ops, false);
    env.io_chunk = g.r.gen::<u64>() | 1;
    env.io_eintr = g.r.gen_range(2..6);
    let sched = g.sched();
    Scenario { property: "C12".into(), scheme, seed: run_seed, cfg, polys, points, ops, faults: vec![], sched, env }
}

pub struct IoCtx<'a> {
    pub scn: &'a Scenario,
    pub res: &'a mut RunResult,
    pub log: &'a EventLog,
    pub cases: u64,
    pub exhaustive_artefacts: u64,
    pub sampled_artefacts: u64,
}

const FULL_ENUM_LIMIT: usize = 4096;

fn offsets(len: usize, full: bool, seed: u64) -> Vec<usize> {
    if full || len <= 64 {
        return (0..len).collect();
    }
    let mut v: Vec<usize> = vec![0, 1, 2, 7, 8, 9, len - 1, len - 2, len - 9, len / 2];
    // likely field boundaries of the curves in use (32/48/96-byte elements, 8-byte lengths) +- 1
    for w in [8usize, 32, 33, 48, 64, 96, 97] {
        for m in 1..=3 {
            for d in [-1i64, 0, 1] {
                let k = (w * m) as i64 + d;
                if k > 0 && (k as usize) < len {
                    v.push(k as usize);
                }
            }
        }
    }
    let mut s = seed | 1;
    for _ in 0..40 {
        s = s.wrapping_mul(6364136223846793005).wrapping_add(1442695040888963407);
        v.push(((s >> 33) as usize) % len);
    }
    v.sort();
    v.dedup();
    v
}

/// All I/O contracts for one artefact.
pub fn io_check<T: CanonicalSerialize + CanonicalDeserialize>(ctx: &mut IoCtx, kind: &str, x: &T, tag: u64) {
    let scn = ctx.scn;
    let mut fail = |ctx: &mut IoCtx, check: &str, detail: String| {
        ctx.res.violations.push(viol(scn, "io-contract", check, kind, format!("{kind}: {detail}")));
    };
    for c in [Compress::Yes, Compress::No] {
        let cname = if c == Compress::Yes { "compressed" } else { "uncompressed" };
        let mut plain = vec![];
        if let Err(e) = x.serialize_with_mode(&mut plain, c) {
            fail(ctx, "plain-write", format!("{cname}: serialization into a Vec failed: {e}"));
            continue;
        }
        let len = plain.len();
        ctx.cases += 1;
        if x.serialized_size(c) != len {
            fail(ctx, "size", format!("{cname}: serialized_size reports {} but {} bytes were written", x.serialized_size(c), len));
        }
        // (1) short writes
        let mut w = FaultyWriter::new(IoPlan { chunk_seed: mix64(scn.seed, "c12-w", tag) | 1, ..Default::default() });
        match step(|| x.serialize_with_mode(&mut w, c)) {
            Outcome::Ok(()) => {
                if w.buf != plain {
                    fail(ctx, "short-write", format!("{cname}: bytes written through a short-writing writer differ from the plain encoding"));
                }
            }
            o => fail(ctx, "short-write", format!("{cname}: {}", o.describe())),
        }
        ctx.res.stats.fire("short-write");
        ctx.cases += 1;
        // (1b) EINTR on writes: Ok => identical bytes; Err tolerated (ark-serialize writes bool with `write`)
        let mut w = FaultyWriter::new(IoPlan { chunk_seed: mix64(scn.seed, "c12-wi", tag) | 1, eintr_every: 3, ..Default::default() });
        match step(|| x.serialize_with_mode(&mut w, c)) {
            Outcome::Ok(()) => {
                if w.buf != plain {
                    fail(ctx, "eintr-write", format!("{cname}: Ok after interrupted writes but different bytes"));
                }
            }
            Outcome::Err(_) => ctx.res.stats.probe("eintr-write-surfaced-as-err"),
            o => fail(ctx, "eintr-write", format!("{cname}: {}", o.describe())),
        }
        ctx.res.stats.fire("eintr-write");
        ctx.cases += 1;
        // (2) write-crash enumeration: hard error once k bytes were accepted
        let full = len <= FULL_ENUM_LIMIT;
        if full { ctx.exhaustive_artefacts += 1 } else { ctx.sampled_artefacts += 1 }
        for k in offsets(len, full, mix64(scn.seed, "c12-off", tag)) {
            let mut w = FaultyWriter::new(IoPlan { fail_at: Some(k), chunk_seed: if k % 2 == 0 { 0 } else { (k as u64) | 1 }, ..Default::default() });
            let out = step(|| x.serialize_with_mode(&mut w, c));
            ctx.cases += 1;
            ctx.res.stats.fire("write-crash");
            match out {
                Outcome::Err(_) => {
                    if !plain.starts_with(&w.buf) {
                        fail(ctx, "write-crash", format!("{cname}: after a disk error at byte {k} the bytes that reached the writer are not a prefix of the encoding"));
                        break;
                    }
                }
                Outcome::Ok(()) => {
                    fail(ctx, "write-crash", format!("{cname}: serialize returned Ok although the writer failed at byte {k} of {len}"));
                    break;
                }
                Outcome::Abort(e) => {
                    fail(ctx, "write-crash", format!("{cname}: abort on a disk error at byte {k}: {e}"));
                    break;
                }
            }
        }
        // (3) short + interrupted reads, round trip, for both validation modes
        for v in [Validate::Yes, Validate::No] {
            let r = FaultyReader::new(&plain, IoPlan { chunk_seed: mix64(scn.seed, "c12-r", tag) | 1, eintr_every: 4, ..Default::default() });
            ctx.cases += 1;
            ctx.res.stats.fire("short-read");
            ctx.res.stats.fire("eintr-read");
            match step(|| T::deserialize_with_mode(r, c, v)) {
                Outcome::Ok(y) => {
                    let mut again = vec![];
                    let _ = y.serialize_with_mode(&mut again, c);
                    if again != plain {
                        fail(ctx, "roundtrip", format!("{cname}/validate={}: ser(deser(bytes)) != bytes", v == Validate::Yes));
                    }
                    // cross-mode: the other compression mode of the reloaded value matches the original's
                    let oc = if c == Compress::Yes { Compress::No } else { Compress::Yes };
                    let (mut a, mut b) = (vec![], vec![]);
                    let _ = y.serialize_with_mode(&mut a, oc);
                    let _ = x.serialize_with_mode(&mut b, oc);
                    if a != b {
                        fail(ctx, "roundtrip", format!("{cname}: reloaded value re-serializes differently in the other compression mode"));
                    }
                }
                o => fail(ctx, "short-read", format!("{cname}/validate={}: honest bytes rejected through short/interrupted reads: {}", v == Validate::Yes, o.describe())),
            }
        }
        // (4) read-crash enumeration: EOF at every proper prefix, EIO at offset k
        let cheap = c == Compress::No;
        for k in offsets(len, full && cheap, mix64(scn.seed, "c12-roff", tag)) {
            for (mode, plan) in [
                ("read-crash-eof", IoPlan { eof_at: Some(k), chunk_seed: (k as u64 * 2) | 1, ..Default::default() }),
                ("read-crash-eio", IoPlan { fail_at: Some(k), ..Default::default() }),
            ] {
                if mode == "read-crash-eio" && k % 3 != 0 {
                    continue;
                }
                let r = FaultyReader::new(&plain, plan);
                ctx.cases += 1;
                ctx.res.stats.fire(mode);
                match step(|| T::deserialize_with_mode(r, c, Validate::No)) {
                    Outcome::Err(_) => {}
                    Outcome::Ok(_) => {
                        fail(ctx, mode, format!("{cname}: a {k}-byte prefix of the {len}-byte encoding deserialized successfully"));
                        break;
                    }
                    Outcome::Abort(e) => {
                        fail(ctx, mode, format!("{cname}: abort on truncated input at byte {k}: {e}"));
                        break;
                    }
                }
            }
        }
    }
}

fn reload<T: CanonicalSerialize + CanonicalDeserialize>(x: &T, c: Compress, v: Validate) -> Option<T> {
    let b = to_bytes(x, c);
    T::deserialize_with_mode(&b[..], c, v).ok()
}

pub fn run<S: Scheme>(scn: &Scenario, log: &EventLog) -> RunResult {
    let mut res = RunResult::default();
    let fam = format!("{:?}", S::FAMILY);
    let Some(mut sess) = start_or_vacuous::<S>(scn, log, &mut res) else { return res };
    let mut claims = vec![];
    for (i, op) in scn.ops.iter().enumerate() {
        // no acceptance precondition here: a decision that *changes* with reloaded keys is exactly
        // what part (5) looks for, also when the session's own (reloaded) keys reject the honest proof
        // the claims kept here are PRISTINE (never serialized): part (5) compares them with their reloads
        let Outcome::Ok(c) = sess.prove(op, i as u64) else { res.stats.probe("vacuous:honest-prover-failed"); break };
        if c.through_channel(&scn.env, 500 + i as u64).is_err() {
            res.violations.push(viol(scn, "io-contract", "roundtrip", "proof", "honest proof lost on a benign channel".into()));
            break;
        }
        let _ = sess.verify(&c, i as u64);
        claims.push(c);
    }
    let pp = match Pp::<S>::deserialize_with_mode(&sess.pp_bytes[..], compress_of(&scn.env), Validate::No) {
        Ok(pp) => pp,
        Err(e) => {
            res.harness = Some(format!("stored pp unreadable: {e}"));
            return res;
        }
    };
    let mut ctx = IoCtx { scn, res: &mut res, log, cases: 0, exhaustive_artefacts: 0, sampled_artefacts: 0 };
    io_check(&mut ctx, "universal-params", &pp, 1);
    io_check(&mut ctx, "committer-key", &sess.prover.ck, 2);
    io_check(&mut ctx, "verifier-key", &sess.verifier.vk, 3);
    for (i, c) in sess.prover.comms.iter().enumerate().take(2) {
        io_check(&mut ctx, "commitment", c.commitment(), 10 + i as u64);
    }
    // structure the trait exposes must survive the round trip: presence of the degree-bound part
    {
        use ark_poly_commit::PCCommitment;
        for c in sess.prover.comms.iter() {
            for cm in [Compress::Yes, Compress::No] {
                for v in [Validate::Yes, Validate::No] {
                    match reload(c.commitment(), cm, v) {
                        Some(y) => {
                            if y.has_degree_bound() != c.commitment().has_degree_bound() {
                                ctx.res.violations.push(viol(scn, "io-contract", "roundtrip", "commitment", format!("commitment {}: has_degree_bound() is {} before and {} after a round trip (compress={} validate={})", c.label(), c.commitment().has_degree_bound(), y.has_degree_bound(), cm == Compress::Yes, v == Validate::Yes)));
                            }
                        }
                        None => ctx.res.violations.push(viol(scn, "io-contract", "roundtrip", "commitment", "the prover's commitment does not reload".into())),
                    }
                }
            }
        }
    }
    for (i, s) in sess.prover.states.iter().enumerate().take(2) {
        io_check(&mut ctx, "commitment-state", s, 20 + i as u64);
    }
    for (i, p) in sess.prover.polys.iter().enumerate().take(1) {
        io_check(&mut ctx, "labeled-polynomial", p, 30 + i as u64);
    }
    for (i, c) in claims.iter().enumerate() {
        match c {
            Claim::Open { proof, .. } => io_check(&mut ctx, "proof", &BatchProof::<S>::from(vec![proof.clone()]), 40 + i as u64),
            Claim::Batch { proof, .. } => io_check(&mut ctx, "batch-proof", proof, 40 + i as u64),
            Claim::Lc { proof, .. } => io_check(&mut ctx, "lc-proof", proof, 40 + i as u64),
        }
    }
    S::io_extra(&mut ctx, &sess);
    let (cases, ex, sa) = (ctx.cases, ctx.exhaustive_artefacts, ctx.sampled_artefacts);
    *res.stats.probes.entry("io-cases".into()).or_default() += cases;
    *res.stats.probes.entry("artefacts-offsets-exhaustive".into()).or_default() += ex;
    *res.stats.probes.entry("artefacts-offsets-sampled".into()).or_default() += sa;

    // (5a) keys trimmed from the universal parameters as they came out of `setup` (never serialized)
    // against the session's keys, which were trimmed from parameters reloaded from the store
    let pristine_vk: Option<Vk<S>> = {
        let mut rng_auth = SimRng::new(scn.seed, "authority", 0);
        let cfg = &scn.cfg;
        let alt = if cfg.lincode.is_some() { S::alt_setup(cfg, &mut rng_auth) } else { None };
        let pp0 = match alt {
            Some(pp) => Some(pp),
            None => step(|| PcOf::<S>::setup(cfg.max_degree, cfg.num_vars, &mut rng_auth)).ok(),
        };
        pp0.and_then(|pp0| step(|| PcOf::<S>::trim(&pp0, cfg.supported_degree, cfg.supported_hiding, cfg.bounds.as_deref())).ok()).map(|(_, vk)| vk)
    };
    if let Some(vk0) = &pristine_vk {
        if to_bytes(vk0, Compress::Yes) != to_bytes(&sess.verifier.vk, Compress::Yes) && S::FAMILY != Family::Brakedown {
            res.violations.push(viol(scn, "io-contract", "roundtrip", "universal-params", "verifier key trimmed from reloaded universal parameters differs from the one trimmed from the originals".into()));
        }
        for (i, claim) in claims.iter().enumerate() {
            let mut tampered = claim.clone();
            let tamper_ok = match &mut tampered {
                Claim::Open { values, .. } => values.get_mut(0).map(|v| *v += S::F::one()).is_some(),
                Claim::Batch { evals, .. } | Claim::Lc { evals, .. } => evals.values_mut().next().map(|v| *v += S::F::one()).is_some(),
            };
            for (which, cl) in [("honest", claim), ("tampered", &tampered)] {
                if which == "tampered" && !tamper_ok {
                    continue;
                }
                let pre = pre_state::<S>(&sess, &claims, i);
                let (mut sp1, mut sp2) = (pre.fork(), pre.fork());
                let (mut r1, mut r2) = (SimRng::new(scn.seed, "c12-dec0", 1), SimRng::new(scn.seed, "c12-dec0", 1));
                let (d1, _) = Sess::<S>::check_with(vk0, &sess.verifier.comms, cl, &mut sp1, &mut r1, 0);
                let (d2, w2) = Sess::<S>::check_with(&sess.verifier.vk, &sess.verifier.comms, cl, &mut sp2, &mut r2, 0);
                res.stats.checks += 2;
                res.stats.fire("pp-reloaded-then-trimmed");
                res.classes.insert(format!("{fam}|{}|pp-reload|{}|{}", op_shape(&scn.ops[i], scn), which, d2.name()));
                if d1.accepted() != d2.accepted() {
                    res.violations.push(viol(scn, "io-contract", "decision", "universal-params", format!("decision on the {which} claim differs between keys trimmed from the original universal parameters ({}) and from reloaded ones ({}) {}", d1.name(), d2.name(), w2)));
                }
            }
        }
    }

    // (5b) the commitments as the prover made them (never serialized unless the prover restarted)
    // against the ones the verifier received through store and channel
    for (i, claim) in claims.iter().enumerate() {
        let mut tampered = claim.clone();
        let tamper_ok = match &mut tampered {
            Claim::Open { values, .. } => values.get_mut(0).map(|v| *v += S::F::one()).is_some(),
            Claim::Batch { evals, .. } | Claim::Lc { evals, .. } => evals.values_mut().next().map(|v| *v += S::F::one()).is_some(),
        };
        for (which, cl) in [("honest", claim), ("tampered", &tampered)] {
            if which == "tampered" && !tamper_ok {
                continue;
            }
            let pre = pre_state::<S>(&sess, &claims, i);
            let (mut sp1, mut sp2) = (pre.fork(), pre.fork());
            let (mut r1, mut r2) = (SimRng::new(scn.seed, "c12-dec1", 1), SimRng::new(scn.seed, "c12-dec1", 1));
            let (d1, _) = Sess::<S>::check_with(&sess.verifier.vk, &sess.prover.comms, cl, &mut sp1, &mut r1, 0);
            let (d2, w2) = Sess::<S>::check_with(&sess.verifier.vk, &sess.verifier.comms, cl, &mut sp2, &mut r2, 0);
            res.stats.checks += 2;
            res.stats.fire("commitments-pristine-vs-received");
            if d1.accepted() != d2.accepted() {
                res.violations.push(viol(scn, "io-contract", "decision", "commitment", format!("decision on the {which} claim differs between the commitments as made ({}) and as received after serialization ({}) {}", d1.name(), d2.name(), w2)));
            }
        }
    }

    // (5) decisions with reloaded keys / commitments / proofs equal the decisions with the originals,
    // on the honest claim and on one tampered claim
    for (i, claim) in claims.iter().enumerate() {
        let mut tampered = claim.clone();
        let tamper_ok = match &mut tampered {
            Claim::Open { values, .. } => values.get_mut(0).map(|v| *v += S::F::one()).is_some(),
            Claim::Batch { evals, .. } | Claim::Lc { evals, .. } => evals.values_mut().next().map(|v| *v += S::F::one()).is_some(),
        };
        for (ci, c) in [Compress::Yes, Compress::No].into_iter().enumerate() {
            for (vi, v) in [Validate::Yes, Validate::No].into_iter().enumerate() {
                let Some(vk2) = reload(&sess.verifier.vk, c, v) else { res.violations.push(viol(scn, "io-contract", "roundtrip", "verifier-key", "verifier key does not reload".into())); continue };
                let mut comms2 = vec![];
                for lc in sess.verifier.comms.iter() {
                    match reload(lc.commitment(), c, v) {
                        Some(x) => comms2.push(LabeledCommitment::new(lc.label().clone(), x, lc.degree_bound())),
                        None => res.violations.push(viol(scn, "io-contract", "roundtrip", "commitment", "commitment does not reload".into())),
                    }
                }
                let env2 = Env { compress: c == Compress::Yes, validate: v == Validate::Yes, ..Env::default() };
                for (which, cl) in [("honest", claim), ("tampered", &tampered)] {
                    if which == "tampered" && !tamper_ok {
                        continue;
                    }
                    let Ok(cl2) = cl.through_channel(&env2, 77) else { res.violations.push(viol(scn, "io-contract", "roundtrip", "proof", "proof does not reload".into())); continue };
                    // the sponge state before operation i: rebuild by replaying accepted claims is costly; instead
                    // both decisions are taken on a fresh fork of the same pre-state snapshot
                    let pre = pre_state::<S>(&sess, &claims, i);
                    let mut sp1 = pre.fork();
                    let mut sp2 = pre.fork();
                    let mut r1 = SimRng::new(scn.seed, "c12-dec", 1);
                    let mut r2 = SimRng::new(scn.seed, "c12-dec", 1);
                    let (d1, _) = Sess::<S>::check_with(&sess.verifier.vk, &sess.verifier.comms, cl, &mut sp1, &mut r1, 0);
                    let (d2, w2) = Sess::<S>::check_with(&vk2, &comms2, &cl2, &mut sp2, &mut r2, 0);
                    res.stats.checks += 2;
                    res.stats.fire("reserialize");
                    res.classes.insert(format!("{fam}|{}|{}|c{}v{}|{}|{}", op_shape(&scn.ops[i], scn), cfg_class(scn), ci, vi, which, d2.name()));
                    if d1.accepted() != d2.accepted() {
                        res.violations.push(viol(scn, "io-contract", "decision", op_kind(&scn.ops[i]), format!("decision on the {which} claim changes after reloading keys/commitments/proof (compress={} validate={}): {} vs {} {}", c == Compress::Yes, v == Validate::Yes, d1.name(), d2.name(), w2)));
                    }
                    if which == "honest" && !d1.accepted() {
                        res.stats.probe("vacuous:honest-not-accepted");
                    }
                }
            }
        }
    }
    let _ = Zero::is_zero(&S::F::zero());
    let st = sess.stats.clone();
    res.stats.merge(&st);
    res
}

/// verifier sponge state before operation `i` (replays the accepted prefix on a fresh sponge)
fn pre_state<S: Scheme>(sess: &Sess<S>, claims: &[Claim<S>], i: usize) -> TraceSponge<S::F> {
    use ark_crypto_primitives::sponge::CryptographicSponge;
    let scn = sess.scn;
    let mut sp = TraceSponge::<S::F>::fresh();
    for k in 0..scn.env.sponge_preabsorb {
        sp.absorb(&mix(scn.seed, "preabsorb", k as u64).to_vec());
    }
    for c in claims.iter().take(i) {
        let mut rng = SimRng::new(scn.seed, "c12-pre", 0);
        let _ = Sess::<S>::check_with(&sess.verifier.vk, &sess.verifier.comms, c, &mut sp, &mut rng, scn.env.verifier_perm.rotate_left(11));
    }
    sp
}
