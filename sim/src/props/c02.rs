//! C02 — a false statement with an honest proof is never accepted (DESIGN.md §3.2).
//! The channel corrupts the *statement* of an accepted transcript and re-delivers it.
use super::common::*;
use super::RunResult;
use crate::gen::{n_positions, pick_scheme, point_of, Gen};
use crate::scenario::*;
use crate::schemes::*;
use crate::seams::*;
use crate::session::*;
use ark_ff::{One, Zero};
use ark_poly_commit::{LabeledCommitment, LabeledPolynomial, PolynomialCommitment};
use ark_std::rand::Rng;

pub const KINDS: &[&str] = &["value+delta", "cancel-in-group", "swap-in-group", "cancel-across-groups", "point-moved", "point-moved-one-entry", "point-label-reused", "commitment-swapped"];

pub fn generate(run_seed: u64) -> Scenario {
    let mut g = Gen::new(run_seed);
    let scheme = pick_scheme(&mut g.r, &|_| true);
    let (cfg, polys) = g.workload(&scheme, 4);
    let points = g.points(3);
    let n_ops = g.r.gen_range(1..=2);
    let ops: Vec<Op> = (0..n_ops).map(|_| g.any_op(&polys, points.len(), 0.2, 0.6)).collect();
    // swarm: a random subset of fault kinds is enabled per run, each placed at every position
    let enabled: Vec<&str> = KINDS.iter().copied().filter(|_| g.r.gen_bool(0.6)).collect();
    let enabled = if enabled.is_empty() { vec![KINDS[g.r.gen_range(0..KINDS.len())]] } else { enabled };
    let mut faults = vec![];
    for (oi, op) in ops.iter().enumerate() {
        let n = n_positions(op);
        for k in &enabled {
            match *k {
                "value+delta" => {
                    for pos in 0..n {
                        faults.push(Fault { kind: k.to_string(), op: oi, target: pos, aux: g.r.gen_range(0..3), param: g.r.gen() });
                    }
                }
                "cancel-in-group" => {
                    // two positions sharing a point label
                    for a in 0..n {
                        for b in (a + 1)..n {
                            if point_of(op, a) == point_of(op, b) && g.r.gen_bool(0.5) {
                                faults.push(Fault { kind: k.to_string(), op: oi, target: a, aux: b, param: g.r.gen() });
                            }
                        }
                    }
                }
                "swap-in-group" => {
                    for a in 0..n {
                        for b in (a + 1)..n {
                            if point_of(op, a) == point_of(op, b) && g.r.gen_bool(0.5) {
                                faults.push(Fault { kind: k.to_string(), op: oi, target: a, aux: b, param: g.r.gen() });
                            }
                        }
                    }
                }
                "cancel-across-groups" => {
                    // two positions at different point labels: +d / -d (the challenge-aware variant lives in C05)
                    for a in 0..n {
                        for b in (a + 1)..n {
                            if point_of(op, a) != point_of(op, b) && g.r.gen_bool(0.3) {
                                faults.push(Fault { kind: k.to_string(), op: oi, target: a, aux: b, param: g.r.gen() });
                            }
                        }
                    }
                }
                "point-moved" => {
                    let pts: std::collections::BTreeSet<usize> = (0..n).map(|p| point_of(op, p)).collect();
                    for z in pts {
                        faults.push(Fault { kind: k.to_string(), op: oi, target: z, aux: g.r.gen_range(0..8), param: g.r.gen() });
                    }
                }
                "point-moved-one-entry" | "point-label-reused" => {
                    // one query of a point label that carries several moves to another point value
                    for a in 0..n {
                        if (0..n).any(|b| b != a && point_of(op, b) == point_of(op, a)) && g.r.gen_bool(0.6) {
                            faults.push(Fault { kind: k.to_string(), op: oi, target: a, aux: g.r.gen_range(0..8), param: g.r.gen() });
                        }
                    }
                }
                "commitment-swapped" => {
                    for p in 0..polys.len() {
                        faults.push(Fault { kind: k.to_string(), op: oi, target: p, aux: 0, param: g.r.gen() });
                    }
                }
                _ => {}
            }
        }
    }
    let benign = g.r.gen_bool(0.4);
    let env = g.env(n_ops, benign);
    let sched = g.sched();
    Scenario { property: "C02".into(), scheme, seed: run_seed, cfg, polys, points, ops, faults, sched, env }
}

fn nonzero_delta<F: ark_ff::PrimeField>(seed: u64, f: &Fault, v: F) -> F {
    match f.aux {
        1 => F::one(),
        2 if !v.is_zero() => -v, // claimed value becomes 0
        _ => loop {
            let d = F::rand(&mut stream(seed, "delta", f.param));
            if !d.is_zero() {
                return d;
            }
        },
    }
}

/// claimed value at position `pos`, mutably
pub fn value_at<'c, S: Scheme>(claim: &'c mut Claim<S>, op: &Op, scn: &Scenario, points: &[S::Pt], pos: usize) -> Option<&'c mut S::F> {
    match (claim, op) {
        (Claim::Open { values, .. }, Op::Open { .. }) => values.get_mut(pos),
        (Claim::Batch { evals, .. }, Op::Batch { queries }) => {
            let (p, z) = queries[pos];
            evals.get_mut(&(scn.polys[p].label.clone(), points[z].clone()))
        }
        (Claim::Lc { evals, .. }, Op::Lc { lcs, queries }) => {
            let (l, z) = queries[pos];
            evals.get_mut(&(lcs[l].label.clone(), points[z].clone()))
        }
        _ => None,
    }
}

pub fn run<S: Scheme>(scn: &Scenario, log: &EventLog) -> RunResult {
    let mut res = RunResult::default();
    let fam = format!("{:?}", S::FAMILY);
    let Some(mut sess) = start_or_vacuous::<S>(scn, log, &mut res) else { return res };
    for (i, op) in scn.ops.iter().enumerate() {
        if do_restarts(&mut sess, i).is_err() {
            res.stats.probe("vacuous:restart");
            break;
        }
        let Some(claim) = honest_claim(&mut sess, op, i, &mut res) else { break };
        let shape = op_shape(op, scn);
        let kind = op_kind(op);
        let points = sess.points.clone();
        for (fi, f) in scn.faults.iter().enumerate().filter(|(_, f)| f.op == i) {
            let mut bad = claim.clone();
            let mut swapped_comms: Option<Vec<LabeledCommitment<Comm<S>>>> = None;
            let applied: bool = match f.kind.as_str() {
                "value+delta" => {
                    if f.target >= n_positions(op) { false } else {
                        match value_at::<S>(&mut bad, op, scn, &points, f.target) {
                            Some(v) => { let d = nonzero_delta(scn.seed, f, *v); *v += d; true }
                            None => false,
                        }
                    }
                }
                "cancel-in-group" => {
                    let n = n_positions(op);
                    if f.target >= n || f.aux >= n || f.target == f.aux || point_of(op, f.target) != point_of(op, f.aux) { false } else {
                        let d: S::F = nonzero_delta(scn.seed, &Fault { aux: 0, ..f.clone() }, S::F::zero());
                        // same (label, point) key twice would cancel on one map entry: require distinct keys
                        let a = value_at::<S>(&mut bad, op, scn, &points, f.target).map(|v| { *v += d; });
                        let b = value_at::<S>(&mut bad, op, scn, &points, f.aux).map(|v| { *v -= d; });
                        a.is_some() && b.is_some() && bad_differs(&bad, &claim)
                    }
                }
                "swap-in-group" => {
                    // the claimed values of two positions at one point label change places
                    let n = n_positions(op);
                    if f.target >= n || f.aux >= n || f.target == f.aux || point_of(op, f.target) != point_of(op, f.aux) { false } else {
                        let va = value_at::<S>(&mut bad, op, scn, &points, f.target).map(|v| *v);
                        let vb = value_at::<S>(&mut bad, op, scn, &points, f.aux).map(|v| *v);
                        match (va, vb) {
                            (Some(va), Some(vb)) if va != vb => {
                                if let Some(v) = value_at::<S>(&mut bad, op, scn, &points, f.target) { *v = vb; }
                                if let Some(v) = value_at::<S>(&mut bad, op, scn, &points, f.aux) { *v = va; }
                                bad_differs(&bad, &claim)
                            }
                            _ => false,
                        }
                    }
                }
                "cancel-across-groups" => {
                    let n = n_positions(op);
                    if f.target >= n || f.aux >= n || f.target == f.aux || point_of(op, f.target) == point_of(op, f.aux) { false } else {
                        let d: S::F = nonzero_delta(scn.seed, &Fault { aux: 0, ..f.clone() }, S::F::zero());
                        let a = value_at::<S>(&mut bad, op, scn, &points, f.target).map(|v| { *v += d; });
                        let b = value_at::<S>(&mut bad, op, scn, &points, f.aux).map(|v| { *v -= d; });
                        a.is_some() && b.is_some() && bad_differs(&bad, &claim)
                    }
                }
                "point-moved" => {
                    let z = f.target;
                    if z >= points.len() { false } else {
                        let d: S::F = nonzero_delta(scn.seed, &Fault { aux: 0, ..f.clone() }, S::F::zero());
                        let z_new = S::P::shift_point(&points[z], f.aux, d);
                        move_point::<S>(&mut bad, op, &sess, z, &z_new)
                    }
                }
                "point-moved-one-entry" | "point-label-reused" => {
                    // the two kinds differ in what else the statement says: "one-entry" = nothing else
                    // names the polynomial at the old point value (its claimed value there is gone);
                    // "label-reused" = another query of the same polynomial still does (see 3.2)
                    let n = n_positions(op);
                    // (the two bespoke schemes are batched by the harness's own adapters, not by the library)
                    if f.target >= n || matches!(op, Op::Open { .. }) || matches!(S::FAMILY, Family::Kzg10 | Family::Mlpc) { false } else {
                        let z = point_of(op, f.target);
                        let d: S::F = nonzero_delta(scn.seed, &Fault { aux: 0, ..f.clone() }, S::F::zero());
                        let z_new = S::P::shift_point(&points[z], f.aux, d);
                        let (falsified, old_gone) = move_entry::<S>(&mut bad, op, &sess, f.target, &z_new);
                        falsified && (old_gone == (f.kind == "point-moved-one-entry"))
                    }
                }
                "commitment-swapped" => {
                    let p = f.target;
                    if p >= scn.polys.len() || !op_mentions(op, p) { false } else {
                        // q: same spec, other coefficients (zero/constant shapes become a different constant)
                        let mut qs = scn.polys[p].clone();
                        qs.coeff_id += 1000 + f.param % 1000;
                        if matches!(qs.shape, Shape::Zero) { qs.shape = Shape::Const; }
                        let q = LabeledPolynomial::new(qs.label.clone(), S::P::build(&scn.cfg, &qs, scn.seed), qs.degree_bound, qs.hiding);
                        // the fault only counts when it makes some claim of this op false
                        let differs = (0..n_positions(op)).any(|pos| position_mentions(op, pos, p) && q.polynomial().eval_ref(&points[point_of(op, pos)]) != sess.truth(p, point_of(op, pos)));
                        if !differs { false } else {
                            let mut rng = SimRng::new(scn.seed, "byzantine", fi as u64);
                            let ck = &sess.prover.ck;
                            match step(|| PcOf::<S>::commit(ck, [&q], Some(&mut rng))) {
                                Outcome::Ok((mut c, _)) if c.len() == 1 => {
                                    let newc = c.pop().unwrap();
                                    let mut list = sess.verifier.comms.clone();
                                    for slot in list.iter_mut() {
                                        if slot.label() == newc.label() {
                                            *slot = LabeledCommitment::new(newc.label().clone(), newc.commitment().clone(), slot.degree_bound());
                                        }
                                    }
                                    swapped_comms = Some(list);
                                    true
                                }
                                _ => false,
                            }
                        }
                    }
                }
                _ => false,
            };
            if !applied {
                res.stats.probe("fault-not-applicable");
                continue;
            }
            res.stats.fire(&f.kind);
            let (d, why) = match &swapped_comms {
                None => sess.verify_scratch(&bad, 9000 + fi as u64),
                Some(list) => {
                    let mut sp = sess.verifier.sponge.fork();
                    let mut rng = SimRng::new(scn.seed, "verifier-scratch", 9000 + fi as u64);
                    sess.stats.checks += 1;
                    Sess::<S>::check_with(&sess.verifier.vk, list, &bad, &mut sp, &mut rng, scn.env.verifier_perm.rotate_left(11))
                }
            };
            log.ev(&format!("fault {} op{} target={} aux={} -> {}", f.kind, i, f.target, f.aux, d.name()));
            res.classes.insert(format!("{fam}|{shape}|{}|{}|{}", cfg_class(scn), f.kind, d.name()));
            if d.accepted() {
                res.violations.push(viol(scn, "safety", &f.kind, kind, format!("false statement accepted: fault {} at op {} ({}), target {} aux {} {}", f.kind, i, shape, f.target, f.aux, why)));
            }
        }
        // after the fault window the honest message is (re)delivered and must be adopted
        let (d, _) = sess.verify(&claim, i as u64);
        if !d.accepted() {
            res.stats.probe("vacuous:honest-redelivery-rejected");
            break;
        }
    }
    let st = sess.stats.clone();
    res.stats.merge(&st);
    res
}

fn bad_differs<S: Scheme>(a: &Claim<S>, b: &Claim<S>) -> bool {
    match (a, b) {
        (Claim::Open { values: x, .. }, Claim::Open { values: y, .. }) => x != y,
        (Claim::Batch { evals: x, .. }, Claim::Batch { evals: y, .. }) => x != y,
        (Claim::Lc { evals: x, .. }, Claim::Lc { evals: y, .. }) => x != y,
        _ => false,
    }
}

pub fn op_mentions(op: &Op, p: usize) -> bool {
    (0..n_positions(op)).any(|pos| position_mentions(op, pos, p))
}
pub fn position_mentions(op: &Op, pos: usize, p: usize) -> bool {
    match op {
        Op::Open { polys, .. } => polys[pos] == p,
        Op::Batch { queries } => queries[pos].0 == p,
        // an LC claim changes with p unless p's total coefficient is zero; keep it simple: only
        // LCs where p occurs exactly once with a non-zero coefficient count
        Op::Lc { lcs, queries } => {
            let lc = &lcs[queries[pos].0];
            lc.terms.iter().filter(|(_, t)| *t == Some(p)).count() == 1 && lc.terms.iter().any(|(c, t)| *t == Some(p) && !matches!(c, Coeff::Zero))
        }
    }
}

/// Move point index `z` of the statement to `z_new`, keeping every claimed value. Returns true only
/// when at least one claim at that point thereby becomes false.
fn move_point<S: Scheme>(bad: &mut Claim<S>, op: &Op, sess: &Sess<S>, z: usize, z_new: &S::Pt) -> bool {
    let scn = sess.scn;
    let old = &sess.points[z];
    match (bad, op) {
        (Claim::Open { point, values, .. }, Op::Open { polys, point: zi }) => {
            if *zi != z { return false; }
            let falsified = polys.iter().zip(values.iter()).any(|(&p, v)| sess.prover.polys[p].polynomial().eval_ref(z_new) != *v);
            *point = z_new.clone();
            falsified
        }
        (Claim::Batch { qs, evals, .. }, Op::Batch { queries }) => {
            let mut falsified = false;
            for &(p, zi) in queries.iter().filter(|q| q.1 == z) {
                let l = scn.polys[p].label.clone();
                let pl = scn.points[zi].label.clone();
                qs.remove(&(l.clone(), (pl.clone(), old.clone())));
                qs.insert((l.clone(), (pl, z_new.clone())));
                if let Some(v) = evals.get(&(l.clone(), old.clone())).copied() {
                    // other labels may share the old point value: keep their entry
                    evals.insert((l.clone(), z_new.clone()), v);
                    if sess.prover.polys[p].polynomial().eval_ref(z_new) != v { falsified = true; }
                }
            }
            falsified
        }
        (Claim::Lc { qs, evals, .. }, Op::Lc { lcs, queries }) => {
            let mut falsified = false;
            for &(l, zi) in queries.iter().filter(|q| q.1 == z) {
                let ll = lcs[l].label.clone();
                let pl = scn.points[zi].label.clone();
                qs.remove(&(ll.clone(), (pl.clone(), old.clone())));
                qs.insert((ll.clone(), (pl, z_new.clone())));
                if let Some(v) = evals.get(&(ll.clone(), old.clone())).copied() {
                    evals.insert((ll.clone(), z_new.clone()), v);
                    // truth of the LC at the new point
                    let mut t = S::F::zero();
                    for (c, term) in &lcs[l].terms {
                        let c: S::F = coeff_of(c, scn.seed);
                        t += c * match term { None => S::F::one(), Some(i) => sess.prover.polys[*i].polynomial().eval_ref(z_new) };
                    }
                    if t != v { falsified = true; }
                }
            }
            falsified
        }
        _ => false,
    }
}

/// Move the point of the single query at position `pos` to `z_new` (its point label and its claimed
/// value stay): the statement now names one point label with two point values. Returns true only
/// if the moved claim is false.
fn move_entry<S: Scheme>(bad: &mut Claim<S>, op: &Op, sess: &Sess<S>, pos: usize, z_new: &S::Pt) -> (bool, bool) {
    let scn = sess.scn;
    match (bad, op) {
        (Claim::Batch { qs, evals, .. }, Op::Batch { queries }) => {
            let (p, zi) = queries[pos];
            let old = &sess.points[zi];
            if old == z_new { return (false, false); }
            let l = scn.polys[p].label.clone();
            let pl = scn.points[zi].label.clone();
            if !qs.remove(&(l.clone(), (pl.clone(), old.clone()))) { return (false, false); }
            qs.insert((l.clone(), (pl, z_new.clone())));
            let Some(v) = evals.get(&(l.clone(), old.clone())).copied() else { return (false, false) };
            // the old entry goes unless another query of the same polynomial still names the old point value
            let old_gone = !qs.iter().any(|(l2, (_, z2))| *l2 == l && z2 == old);
            if old_gone { evals.remove(&(l.clone(), old.clone())); }
            evals.insert((l, z_new.clone()), v);
            (sess.prover.polys[p].polynomial().eval_ref(z_new) != v, old_gone)
        }
        (Claim::Lc { qs, evals, .. }, Op::Lc { lcs, queries }) => {
            let (li, zi) = queries[pos];
            let old = &sess.points[zi];
            if old == z_new { return (false, false); }
            let ll = lcs[li].label.clone();
            let pl = scn.points[zi].label.clone();
            if !qs.remove(&(ll.clone(), (pl.clone(), old.clone()))) { return (false, false); }
            qs.insert((ll.clone(), (pl, z_new.clone())));
            let Some(v) = evals.get(&(ll.clone(), old.clone())).copied() else { return (false, false) };
            let old_gone = !qs.iter().any(|(l2, (_, z2))| *l2 == ll && z2 == old);
            if old_gone { evals.remove(&(ll.clone(), old.clone())); }
            evals.insert((ll, z_new.clone()), v);
            let mut t = S::F::zero();
            for (c, term) in &lcs[li].terms {
                let c: S::F = coeff_of(c, scn.seed);
                t += c * match term { None => S::F::one(), Some(i) => sess.prover.polys[*i].polynomial().eval_ref(z_new) };
            }
            (t != v, old_gone)
        }
        _ => (false, false),
    }
}
