//! Helpers shared by the property drivers.
use super::RunResult;
use crate::scenario::*;
use crate::schemes::*;
use crate::seams::*;
use crate::session::*;
use std::collections::BTreeSet;

pub fn op_shape(op: &Op, scn: &Scenario) -> String {
    match op {
        Op::Open { polys, .. } => format!("open/{}", polys.len().min(3)),
        Op::Batch { queries } => {
            let labels: BTreeSet<_> = queries.iter().map(|q| q.1).collect();
            let vals: BTreeSet<_> = queries.iter().map(|q| scn.points[q.1].value_id).collect();
            format!("batch/q{}/l{}{}", queries.len().min(4), labels.len().min(3), if vals.len() < labels.len() || (scn.cfg.num_vars == Some(0) && labels.len() > 1) { "/shared" } else { "" })
        }
        Op::Lc { lcs, queries } => {
            let labels: BTreeSet<_> = queries.iter().map(|q| q.1).collect();
            let vals: BTreeSet<_> = queries.iter().map(|q| scn.points[q.1].value_id).collect();
            format!("lc/{}x{}{}", lcs.len().min(3), queries.len().min(3), if vals.len() < labels.len() || (scn.cfg.num_vars == Some(0) && labels.len() > 1) { "/shared" } else { "" })
        }
    }
}
pub fn op_kind(op: &Op) -> &'static str {
    match op {
        Op::Open { .. } => "open",
        Op::Batch { .. } => "batch",
        Op::Lc { .. } => "lc",
    }
}

pub fn cfg_class(scn: &Scenario) -> String {
    let b = scn.polys.iter().any(|p| p.degree_bound.is_some());
    let h = scn.polys.iter().any(|p| p.hiding.is_some());
    let shapes: BTreeSet<String> = scn.polys.iter().map(|p| format!("{:?}", p.shape).chars().take(4).collect()).collect();
    format!("b{}h{}n{}{}", b as u8, h as u8, scn.polys.len().min(3), shapes.into_iter().collect::<Vec<_>>().join(""))
}

pub fn viol(scn: &Scenario, oracle: &str, fault: &str, component: &str, detail: String) -> Violation {
    Violation { property: scn.property.clone(), oracle: oracle.into(), scheme: scn.scheme.clone(), fault: fault.into(), component: component.into(), detail }
}

/// Bring a session up for a property whose workload is in-domain. A failure here is a
/// precondition failure of the run (that is C01's business), not a violation of the property.
pub fn start_or_vacuous<'a, S: Scheme>(scn: &'a Scenario, log: &EventLog, res: &mut RunResult) -> Option<Sess<'a, S>> {
    match Sess::<S>::start(scn, log) {
        Ok(s) => Some(s),
        Err(StartError::Harness(e)) => {
            res.stats.probe("vacuous:session-start-io");
            log.ev(&format!("vacuous: {e}"));
            None
        }
        Err(StartError::Refused(stage, why)) => {
            res.stats.probe(&format!("vacuous:refused-{stage}"));
            log.ev(&format!("vacuous: refused at {stage}: {why}"));
            None
        }
    }
}

/// Honest prove + channel + scratch verification. None (and a probe) when the honest transcript is
/// not accepted: the run is then vacuous for a negative property.
/// the honest prover's claim after the channel, without asking the verifier first (C05 compares
/// the two verifier replicas on it; whether an honest claim is accepted at all is C01's question)
pub fn honest_claim_unverified<S: Scheme>(sess: &mut Sess<S>, op: &Op, i: usize, res: &mut RunResult) -> Option<Claim<S>> {
    let claim = match sess.prove(op, i as u64) {
        Outcome::Ok(c) => c,
        o => {
            res.stats.probe("vacuous:honest-prover-failed");
            sess.log.ev(&format!("vacuous: prover {}", o.describe()));
            return None;
        }
    };
    match claim.through_channel(&sess.scn.env, 500 + i as u64) {
        Ok(c) => Some(c),
        Err(e) => {
            res.stats.probe("vacuous:channel");
            sess.log.ev(&format!("vacuous: channel {e}"));
            None
        }
    }
}

pub fn honest_claim<S: Scheme>(sess: &mut Sess<S>, op: &Op, i: usize, res: &mut RunResult) -> Option<Claim<S>> {
    let claim = match sess.prove(op, i as u64) {
        Outcome::Ok(c) => c,
        o => {
            res.stats.probe("vacuous:honest-prover-failed");
            sess.log.ev(&format!("vacuous: prover {}", o.describe()));
            return None;
        }
    };
    let claim = match claim.through_channel(&sess.scn.env, 500 + i as u64) {
        Ok(c) => c,
        Err(e) => {
            res.stats.probe("vacuous:channel");
            sess.log.ev(&format!("vacuous: channel {e}"));
            return None;
        }
    };
    let (d, why) = sess.verify_scratch(&claim, 7000 + i as u64);
    if !d.accepted() {
        res.stats.probe("vacuous:honest-not-accepted");
        sess.log.ev(&format!("vacuous: honest claim -> {} {}", d.name(), trunc(&why, 80)));
        return None;
    }
    Some(claim)
}

/// restarts scheduled before operation `i`
pub fn do_restarts<S: Scheme>(sess: &mut Sess<S>, i: usize) -> Result<(), String> {
    if sess.scn.env.restart_prover_before.contains(&i) {
        sess.restart_prover()?;
    }
    if sess.scn.env.restart_verifier_before.contains(&i) {
        sess.restart_verifier()?;
    }
    Ok(())
}

pub fn fault_enabled(scn: &Scenario, kind: &str) -> bool {
    scn.faults.iter().any(|f| f.kind == kind)
}
pub fn faults_of<'a>(scn: &'a Scenario, kind: &str, op: usize) -> Vec<&'a Fault> {
    scn.faults.iter().filter(|f| f.kind == kind && f.op == op).collect()
}
