//! C17 — out-of-domain requests are refused, never answered with a wrong result (DESIGN.md §3.11).
//! The client-request generator also emits requests outside the scheme's domain (magnitudes at the
//! boundary); the admission table below is the reference model: which (family, kind) pairs exist.
use super::common::*;
use super::RunResult;
use crate::gen::{pick_scheme, Gen};
use crate::scenario::*;
use crate::schemes::*;
use crate::seams::*;
use crate::session::*;
use ark_poly_commit::{Evaluations, LabeledPolynomial, PCCommitterKey, PolynomialCommitment, QuerySet};
use ark_std::rand::Rng;

/// (kind, families it applies to)
pub fn admission_table() -> Vec<(&'static str, Vec<Family>)> {
    use Family::*;
    vec![
        ("poly-too-large", vec![Marlin, Sonic, Ipa, Pst13, Kzg10]),
        ("bound-not-enforced", vec![Marlin, Sonic]),
        ("bound-below-degree", vec![Marlin, Sonic, Ipa]),
        ("bound-above-supported", vec![Sonic, Ipa]),
        ("hiding-zero", vec![Marlin, Sonic, Pst13, Kzg10]),
        ("hiding-too-large", vec![Marlin, Sonic, Pst13, Kzg10]),
        ("missing-rng-commit", vec![Marlin, Sonic, Ipa, Pst13, Kzg10]),
        ("missing-rng-open", vec![Ipa, Hyrax]),
        ("wrong-num-vars-setup", vec![Hyrax, Pst13, Mlpc]),
        ("wrong-num-vars-commit", vec![Hyrax, Brakedown, Mlpc]),
        ("wrong-num-vars-open", vec![Hyrax, MLigero, Brakedown]),
        ("wrong-num-vars-check", vec![Mlpc]),
        ("mismatched-labels", vec![Ipa, Hyrax]),
        ("unknown-polynomial-open", vec![Marlin, Sonic, Ipa, Pst13, Hyrax, ULigero, MLigero, Brakedown, Kzg10, Mlpc]),
        ("unknown-polynomial-check", vec![Marlin, Sonic, Ipa, Pst13, Hyrax, ULigero, MLigero, Brakedown, Kzg10, Mlpc]),
        ("unknown-polynomial-open-lc", vec![Marlin, Sonic, Ipa, Pst13, Hyrax, ULigero, MLigero, Brakedown, Kzg10, Mlpc]),
        ("unknown-polynomial-check-lc", vec![Marlin, Sonic, Ipa, Pst13, Hyrax, ULigero, MLigero, Brakedown, Kzg10, Mlpc]),
        ("missing-evaluation", vec![Marlin, Sonic, Ipa, Pst13, Hyrax, ULigero, MLigero, Brakedown, Kzg10, Mlpc]),
        ("setup-zero", vec![Marlin, Sonic, Pst13, Kzg10]),
        ("trim-beyond-params", vec![Marlin, Sonic, Ipa, Pst13, Kzg10, Mlpc]),
    ]
}

pub fn generate(run_seed: u64) -> Scenario {
    let mut g = Gen::new(run_seed);
    let scheme = pick_scheme(&mut g.r, &|_| true);
    let fam = family_of(&scheme);
    let (cfg, polys) = g.workload(&scheme, 3);
    let points = g.points(2);
    let ops = vec![g.open_or_batch(polys.len(), points.len(), 1.0)];
    let mut faults = vec![];
    for (k, fams) in admission_table() {
        if fams.contains(&fam) && g.r.gen_bool(0.7) {
            faults.push(Fault { kind: k.into(), op: 0, target: g.r.gen_range(0..4), aux: g.r.gen_range(0..4), param: g.r.gen() });
        }
    }
    let env = g.env(1, false);
    let sched = g.sched();
    Scenario { property: "C17".into(), scheme, seed: run_seed, cfg, polys, points, ops, faults, sched, env }
}

fn lp<S: Scheme>(scn: &Scenario, cfg: &KeyCfg, spec: &PolySpec) -> LabeledPolynomial<S::F, S::P> {
    LabeledPolynomial::new(spec.label.clone(), S::P::build(cfg, spec, scn.seed), spec.degree_bound, spec.hiding)
}

pub fn run<S: Scheme>(scn: &Scenario, log: &EventLog) -> RunResult {
    let mut res = RunResult::default();
    let fam = S::FAMILY;
    let famn = format!("{:?}", fam);
    let Some(mut sess) = start_or_vacuous::<S>(scn, log, &mut res) else { return res };
    let cfg = &scn.cfg;
    let sup = sess.prover.ck.supported_degree(); // effective (IPA rounds up)
    let table = admission_table();
    let op = &scn.ops[0];
    let honest = honest_claim(&mut sess, op, 0, &mut res);
    for (fi, f) in scn.faults.iter().enumerate() {
        if !table.iter().any(|(k, fams)| *k == f.kind && fams.contains(&fam)) {
            res.stats.probe("fault-not-applicable");
            continue;
        }
        let mut rng = SimRng::new(scn.seed, "c17", fi as u64);
        let base = PolySpec { label: "oob".into(), shape: Shape::Dense, degree: 1.min(sup), degree_bound: None, hiding: None, coeff_id: 5000 + fi as u64 };
        let ck = &sess.prover.ck;
        // each request returns: Some((outcome kind, description of what came back)) or None if not constructible
        let verdict: Option<(String, bool, String)> = match f.kind.as_str() {
            "poly-too-large" => {
                let d = sup + 1 + f.target; // supported+1, supported+2, ...
                // oversized polynomials of different shapes: dense, x^k * q(x) (low-order zeros), sparse
                let shape = match f.aux % 3 { 0 => Shape::Dense, 1 => Shape::LowZeros(1 + (f.param as usize) % d), _ => Shape::Sparse(1 + (f.param as usize) % 3) };
                let spec = PolySpec { degree: d, shape, ..base.clone() };
                let mut c2 = cfg.clone();
                if fam == Family::Pst13 { c2.num_vars = cfg.num_vars; }
                let p = lp::<S>(scn, &c2, &spec);
                let o = step(|| PcOf::<S>::commit(ck, [&p], Some(&mut rng)));
                Some((format!("commit(deg {} > supported {})", d, sup), o.is_ok(), o.describe()))
            }
            "bound-not-enforced" => {
                let listed = cfg.bounds.clone().unwrap_or_default();
                let cand: Vec<usize> = (1..=cfg.supported_degree).filter(|d| !listed.contains(d)).collect();
                if cand.is_empty() { None } else {
                    let d = cand[f.target % cand.len()];
                    let spec = PolySpec { degree: d.min(base.degree), degree_bound: Some(d), ..base.clone() };
                    let p = lp::<S>(scn, cfg, &spec);
                    let o = step(|| PcOf::<S>::commit(ck, [&p], Some(&mut rng)));
                    Some((format!("commit(bound {} not in {:?})", d, cfg.bounds), o.is_ok(), o.describe()))
                }
            }
            "bound-below-degree" => {
                // deg = bound + 1 with an enforced (or, for IPA, any) bound
                let bounds: Vec<usize> = if fam == Family::Ipa { (0..sup).collect() } else { cfg.bounds.clone().unwrap_or_default().into_iter().filter(|b| *b < sup).collect() };
                if bounds.is_empty() { None } else {
                    let b = bounds[f.target % bounds.len()];
                    let spec = PolySpec { degree: b + 1, degree_bound: Some(b), ..base.clone() };
                    let p = lp::<S>(scn, cfg, &spec);
                    let o = step(|| PcOf::<S>::commit(ck, [&p], Some(&mut rng)));
                    Some((format!("commit(deg {} with bound {})", b + 1, b), o.is_ok(), o.describe()))
                }
            }
            "bound-above-supported" => {
                if fam == Family::Ipa {
                    let b = sup + 1 + f.target;
                    let spec = PolySpec { degree_bound: Some(b), ..base.clone() };
                    let p = lp::<S>(scn, cfg, &spec);
                    let o = step(|| PcOf::<S>::commit(ck, [&p], Some(&mut rng)));
                    Some((format!("commit(bound {} > supported {})", b, sup), o.is_ok(), o.describe()))
                } else {
                    // Sonic: the keys cannot even be trimmed for it
                    if cfg.supported_degree >= cfg.max_degree { None } else {
                        let b = cfg.supported_degree + 1;
                        match Pp::<S>::deserialize_with_mode(&sess.pp_bytes[..], compress_of(&scn.env), ark_serialize::Validate::No).ok() {
                            None => None,
                            Some(pp) => {
                                let o = step(|| PcOf::<S>::trim(&pp, cfg.supported_degree, cfg.supported_hiding, Some(&[b])));
                                Some((format!("trim(supported {}, bounds [{}])", cfg.supported_degree, b), o.is_ok(), o.describe()))
                            }
                        }
                    }
                }
            }
            "hiding-zero" => {
                let spec = PolySpec { hiding: Some(0), ..base.clone() };
                let p = lp::<S>(scn, cfg, &spec);
                let o = step(|| PcOf::<S>::commit(ck, [&p], Some(&mut rng)));
                Some(("commit(hiding_bound = 0)".into(), o.is_ok(), o.describe()))
            }
            "hiding-too-large" => {
                let h = if fam == Family::Pst13 { cfg.supported_degree + 1 + f.target } else { cfg.supported_hiding + 1 + f.target };
                let spec = PolySpec { hiding: Some(h), ..base.clone() };
                let p = lp::<S>(scn, cfg, &spec);
                let o = step(|| PcOf::<S>::commit(ck, [&p], Some(&mut rng)));
                Some((format!("commit(hiding_bound {} beyond the key)", h), o.is_ok(), o.describe()))
            }
            "missing-rng-commit" => {
                let spec = PolySpec { hiding: Some(1), ..base.clone() };
                let p = lp::<S>(scn, cfg, &spec);
                let o = step(|| PcOf::<S>::commit(ck, [&p], None));
                Some(("commit(hiding, rng = None)".into(), o.is_ok(), o.describe()))
            }
            "missing-rng-open" => {
                // IPA needs a hiding polynomial among the opened ones; Hyrax always needs randomness
                let idx: Option<usize> = if fam == Family::Hyrax { Some(0) } else { (0..scn.polys.len()).find(|&i| scn.polys[i].hiding.is_some()) };
                match idx {
                    None => None,
                    Some(i) => {
                        let pr = &sess.prover;
                        let mut sp = pr.sponge.fork();
                        let z = &sess.points[0];
                        let o = step(|| PcOf::<S>::open(&pr.ck, [&pr.polys[i]], [&pr.comms[i]], z, &mut sp, [&pr.states[i]], None));
                        Some(("open(hiding, rng = None)".into(), o.is_ok(), o.describe()))
                    }
                }
            }
            "wrong-num-vars-setup" => {
                let nv: Option<usize> = match (fam, f.target % 3) {
                    (Family::Hyrax, 0) => None,
                    (Family::Hyrax, _) => Some(2 * (f.aux % 4) + 1),
                    (_, 0) => None,
                    _ => Some(0),
                };
                let o = step(|| PcOf::<S>::setup(cfg.max_degree, nv, &mut rng));
                Some((format!("setup(num_vars = {:?})", nv), o.is_ok(), o.describe()))
            }
            "wrong-num-vars-commit" => {
                let nv = cfg.num_vars.unwrap_or(0);
                let nv2 = match (fam, f.target % 2) {
                    (Family::Hyrax, 0) => nv + 1,                 // odd
                    (Family::Hyrax, _) => nv + 2 + 2 * (f.aux % 3), // too many for the key
                    (_, 0) => nv + 1,
                    _ => if nv >= 2 { nv - 1 } else { nv + 2 },
                };
                if nv2 > 12 { None } else {
                    let c2 = KeyCfg { num_vars: Some(nv2), ..cfg.clone() };
                    let spec = PolySpec { degree: nv2, ..base.clone() };
                    let p = lp::<S>(scn, &c2, &spec);
                    let o = step(|| PcOf::<S>::commit(ck, [&p], Some(&mut rng)));
                    Some((format!("commit({}-variate polynomial under a {}-variate key)", nv2, nv), o.is_ok(), o.describe()))
                }
            }
            "wrong-num-vars-open" => {
                // point with an odd number of coordinates / other arity than the polynomial
                let nv = cfg.num_vars.unwrap_or(0);
                let c2 = KeyCfg { num_vars: Some(nv + 1 + f.target % 2), ..cfg.clone() };
                let z = S::P::point(&c2, scn.seed, 777);
                let pr = &sess.prover;
                let mut sp = pr.sponge.fork();
                let o = step(|| PcOf::<S>::open(&pr.ck, [&pr.polys[0]], [&pr.comms[0]], &z, &mut sp, [&pr.states[0]], Some(&mut rng)));
                Some((format!("open(point of {} coordinates, {}-variate polynomial)", nv + 1 + f.target % 2, nv), o.is_ok(), o.describe()))
            }
            "wrong-num-vars-check" => {
                // the honest proof and value, presented at the same point with surplus coordinates
                // (the point generator draws coordinates in order, so a longer point extends the honest one)
                let nv = cfg.num_vars.unwrap_or(0);
                let extra = 1 + f.target % 2;
                let c2 = KeyCfg { num_vars: Some(nv + extra), ..cfg.clone() };
                let v = &sess.verifier;
                let pr = &sess.prover;
                let z = S::P::point(cfg, scn.seed, 778);
                let z2 = S::P::point(&c2, scn.seed, 778);
                let mut sp = v.sponge.fork();
                match step(|| PcOf::<S>::open(&pr.ck, [&pr.polys[0]], [&pr.comms[0]], &z, &mut sp, [&pr.states[0]], Some(&mut rng))) {
                    Outcome::Ok(proof) => {
                        let val = pr.polys[0].polynomial().eval_ref(&z);
                        let mut sp = v.sponge.fork();
                        let (d0, _) = decide(|| PcOf::<S>::check(&v.vk, [&pr.comms[0]], &z, [val], &proof, &mut sp, Some(&mut rng)));
                        if !d0.accepted() || S::P::point_len(&z2) != nv + extra { res.stats.probe("vacuous:honest-not-accepted"); None } else {
                            let mut sp = v.sponge.fork();
                            let (d, why) = decide(|| PcOf::<S>::check(&v.vk, [&pr.comms[0]], &z2, [val], &proof, &mut sp, Some(&mut rng)));
                            Some((format!("check(point of {} coordinates, {}-variate key and proof)", nv + extra, nv), d.accepted(), format!("{} {}", d.name(), trunc(&why, 60))))
                        }
                    }
                    _ => None,
                }
            }
            "mismatched-labels" => {
                if scn.polys.len() < 2 { None } else {
                    let pr = &sess.prover;
                    let mut sp = pr.sponge.fork();
                    let z = &sess.points[0];
                    // polynomials listed (0,1), commitments listed (1,0)
                    let o = step(|| PcOf::<S>::open(&pr.ck, [&pr.polys[0], &pr.polys[1]], [&pr.comms[1], &pr.comms[0]], z, &mut sp, [&pr.states[0], &pr.states[1]], Some(&mut rng)));
                    Some(("open(polynomials and commitments listed under different labels)".into(), o.is_ok(), o.describe()))
                }
            }
            "unknown-polynomial-open" => {
                let pr = &sess.prover;
                let mut sp = pr.sponge.fork();
                let mut qs: QuerySet<S::Pt> = QuerySet::new();
                qs.insert((scn.polys[0].label.clone(), (scn.points[0].label.clone(), sess.points[0].clone())));
                qs.insert(("nobody".to_string(), (scn.points[0].label.clone(), sess.points[0].clone())));
                let o = step(|| PcOf::<S>::batch_open(&pr.ck, pr.polys.iter(), pr.comms.iter(), &qs, &mut sp, pr.states.iter(), Some(&mut rng)));
                Some(("batch_open(query for a polynomial that was never supplied)".into(), o.is_ok(), o.describe()))
            }
            "unknown-polynomial-open-lc" | "unknown-polynomial-check-lc" => {
                use ark_poly_commit::{LCTerm, LinearCombination};
                // an equation over a supplied polynomial (unbounded if there is one) and one nobody supplied
                let pi = (0..scn.polys.len()).find(|&i| scn.polys[i].degree_bound.is_none()).unwrap_or(0);
                let known = scn.polys[pi].label.clone();
                let z = sess.points[0].clone();
                let mut qs: QuerySet<S::Pt> = QuerySet::new();
                qs.insert(("eq".to_string(), (scn.points[0].label.clone(), z.clone())));
                let honest_lc = LinearCombination::<S::F>::new("eq", vec![(S::F::from(1u64), LCTerm::from(known.clone()))]);
                let ghost_lc = if f.target % 2 == 0 {
                    LinearCombination::<S::F>::new("eq", vec![(S::F::from(1u64), LCTerm::from(known.clone())), (S::F::from(1u64), LCTerm::from("nobody".to_string()))])
                } else {
                    LinearCombination::<S::F>::new("eq", vec![(S::F::from(1u64), LCTerm::from("nobody".to_string())), (S::F::from(1u64), LCTerm::from(known.clone()))])
                };
                let pr = &sess.prover;
                let v = &sess.verifier;
                if f.kind == "unknown-polynomial-open-lc" {
                    let mut sp = v.sponge.fork();
                    let o = step(|| PcOf::<S>::open_combinations(&pr.ck, [&ghost_lc], pr.polys.iter(), pr.comms.iter(), &qs, &mut sp, pr.states.iter(), Some(&mut rng)));
                    Some(("open_combinations(equation naming a polynomial that was never supplied)".into(), o.is_ok(), o.describe()))
                } else {
                    let mut sp = v.sponge.fork();
                    match step(|| PcOf::<S>::open_combinations(&pr.ck, [&honest_lc], pr.polys.iter(), pr.comms.iter(), &qs, &mut sp, pr.states.iter(), Some(&mut rng))) {
                        Outcome::Ok(proof) => {
                            let mut evals: Evaluations<S::Pt, S::F> = Evaluations::new();
                            evals.insert(("eq".to_string(), z.clone()), pr.polys[pi].polynomial().eval_ref(&z));
                            let mut sp = v.sponge.fork();
                            let (d0, _) = decide(|| PcOf::<S>::check_combinations(&v.vk, [&honest_lc], &v.comms, &qs, &evals, &proof, &mut sp, &mut rng));
                            if !d0.accepted() { res.stats.probe("vacuous:honest-lc-not-accepted"); None } else {
                                let mut sp = v.sponge.fork();
                                let (d, why) = decide(|| PcOf::<S>::check_combinations(&v.vk, [&ghost_lc], &v.comms, &qs, &evals, &proof, &mut sp, &mut rng));
                                Some(("check_combinations(equation naming a commitment that was never supplied)".into(), d.accepted(), format!("{} {}", d.name(), trunc(&why, 60))))
                            }
                        }
                        o => { res.stats.probe(&format!("vacuous:honest-lc-{}", o.kind())); None }
                    }
                }
            }
            "unknown-polynomial-check" | "missing-evaluation" => {
                match &honest {
                    Some(Claim::Batch { qs, evals, proof }) => {
                        let v = &sess.verifier;
                        let mut sp = v.sponge.fork();
                        if f.kind == "unknown-polynomial-check" {
                            // message drop: one queried commitment never arrived
                            let victim = qs.iter().next().unwrap().0.clone();
                            let comms: Vec<_> = v.comms.iter().filter(|c| *c.label() != victim).cloned().collect();
                            let (d, why) = decide(|| PcOf::<S>::batch_check(&v.vk, &comms, qs, evals, proof, &mut sp, &mut rng));
                            res.stats.fire("message-dropped");
                            Some((format!("batch_check(commitment {victim} dropped)"), d.accepted(), format!("{} {}", d.name(), trunc(&why, 60))))
                        } else {
                            let mut ev2: Evaluations<S::Pt, S::F> = evals.clone();
                            let k = ev2.keys().nth(f.target % ev2.len()).cloned().unwrap();
                            ev2.remove(&k);
                            let (d, why) = decide(|| PcOf::<S>::batch_check(&v.vk, &v.comms, qs, &ev2, proof, &mut sp, &mut rng));
                            res.stats.fire("message-dropped");
                            Some((format!("batch_check(evaluation of {} dropped)", k.0), d.accepted(), format!("{} {}", d.name(), trunc(&why, 60))))
                        }
                    }
                    _ => None,
                }
            }
            "setup-zero" => {
                let (d, nv) = match (fam, f.target % 2) {
                    (Family::Pst13, 0) => (0, cfg.num_vars),
                    (Family::Pst13, _) => (cfg.max_degree, Some(0)),
                    _ => (0, cfg.num_vars),
                };
                let o = step(|| PcOf::<S>::setup(d, nv, &mut rng));
                Some((format!("setup(max_degree = {d}, num_vars = {nv:?})"), o.is_ok(), o.describe()))
            }
            "trim-beyond-params" => {
                let pp = Pp::<S>::deserialize_with_mode(&sess.pp_bytes[..], compress_of(&scn.env), ark_serialize::Validate::No).ok();
                match pp {
                    None => None,
                    Some(pp) => {
                        use ark_poly_commit::PCUniversalParams;
                        let want = pp.max_degree() + 1 + f.target;
                        let o = step(|| PcOf::<S>::trim(&pp, want, 1, None));
                        Some((format!("trim(supported {} > max {})", want, pp.max_degree()), o.is_ok(), o.describe()))
                    }
                }
            }
            _ => None,
        };
        let Some((what, answered, how)) = verdict else { res.stats.probe("fault-not-applicable"); continue };
        res.stats.fire(&f.kind);
        log.ev(&format!("request {} -> {}", what, how));
        res.classes.insert(format!("{famn}|{}|{}|{}", f.kind, cfg_class(scn), how.split('(').next().unwrap_or("")));
        if answered {
            res.violations.push(viol(scn, "admission", &f.kind, &f.kind, format!("out-of-domain request answered instead of refused: {what} -> {how}")));
        }
    }
    let st = sess.stats.clone();
    res.stats.merge(&st);
    res
}
use ark_serialize::CanonicalDeserialize;
