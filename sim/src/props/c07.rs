//! C07 — hiding commitments and proofs are blinded with fresh, sufficient randomness
//! (DESIGN.md §3.7). Everything here hangs off the RNG seam: counting, forking, withholding.
use super::common::*;
use super::RunResult;
use crate::gen::Gen;
use crate::scenario::*;
use crate::schemes::*;
use crate::seams::*;
use crate::session::*;
use ark_ff::PrimeField;
use ark_poly_commit::{LabeledPolynomial, PolynomialCommitment};
use ark_serialize::{CanonicalDeserialize, Compress};
use ark_std::rand::Rng;

pub const REPEATS: usize = 16;

pub fn generate(run_seed: u64) -> Scenario {
    let mut g = Gen::new(run_seed);
    let cands: Vec<&&str> = SCHEMES.iter().filter(|s| family_of(s).has_hiding() || family_of(s) == Family::Hyrax).collect();
    let scheme = cands[g.r.gen_range(0..cands.len())].to_string();
    let fam = family_of(&scheme);
    let (cfg, mut polys) = g.workload(&scheme, 3);
    // most runs want hiding somewhere; some are entirely non-hiding (clause "no blinding without a bound")
    if fam != Family::Hyrax {
        if g.r.gen_bool(0.2) {
            for p in polys.iter_mut() { p.hiding = None; }
        } else if polys.iter().all(|p| p.hiding.is_none()) {
            let hmax = match fam { Family::Pst13 => cfg.supported_degree, Family::Ipa => 3, _ => cfg.supported_hiding };
            for p in polys.iter_mut() {
                let lim = match (fam, p.degree_bound) { (Family::Sonic, Some(b)) => hmax.min(b), _ => hmax };
                if lim >= 1 { p.hiding = Some(g.r.gen_range(1..=lim)); }
            }
        }
    }
    let points = g.points(2);
    let n_ops = g.r.gen_range(1..=2);
    let ops: Vec<Op> = (0..n_ops).map(|_| g.open_or_batch(polys.len(), points.len(), 0.3)).collect();
    let env = g.env(n_ops, false);
    let sched = g.sched();
    Scenario { property: "C07".into(), scheme, seed: run_seed, cfg, polys, points, ops, faults: vec![], sched, env }
}

fn fe_bytes<F: PrimeField>() -> u64 {
    ((F::MODULUS_BIT_SIZE as u64) + 7) / 8
}

pub fn run<S: Scheme>(scn: &Scenario, log: &EventLog) -> RunResult {
    let mut res = RunResult::default();
    let fam = S::FAMILY;
    let famn = format!("{:?}", fam);
    let Some(mut sess) = start_or_vacuous::<S>(scn, log, &mut res) else { return res };
    let cfgc = cfg_class(scn);
    let any_hiding = scn.polys.iter().any(|p| p.hiding.is_some());
    let mut bad = |res: &mut RunResult, kind: &str, comp: &str, detail: String| {
        res.violations.push(viol(scn, "hiding", kind, comp, detail));
    };

    // ---- (a)/(b) RNG accounting of `commit`
    let drawn = sess.commit_rng_bytes;
    if fam != Family::Hyrax {
        let mut need = 0u64;
        for p in &scn.polys {
            if let Some(h) = p.hiding {
                let per = match fam {
                    Family::Marlin => (h as u64 + 2) * (1 + p.degree_bound.is_some() as u64),
                    Family::Sonic | Family::Pst13 => h as u64 + 2,
                    Family::Ipa => 1 + p.degree_bound.is_some() as u64,
                    _ => 0,
                };
                need += per * fe_bytes::<S::F>();
            }
        }
        res.classes.insert(format!("{famn}|{cfgc}|rng-accounting|drawn{}", if drawn == 0 { "0" } else { ">0" }));
        if !any_hiding && drawn != 0 {
            bad(&mut res, "rng-accounting", "commit", format!("commit drew {drawn} bytes from the caller's RNG although no polynomial is hiding"));
        }
        if drawn < need {
            bad(&mut res, "rng-accounting", "commit", format!("commit drew {drawn} bytes from the caller's RNG; blinding {} hiding polynomial(s) needs at least {need}", scn.polys.iter().filter(|p| p.hiding.is_some()).count()));
        }
        // (that a non-hiding state carries no blinding is part of the structural audit below: a
        // degree-bounded Marlin state is Some(zero polynomial), not byte-equal to `empty()`)
    }
    res.stats.fire("rng-counted");

    // ---- (e) structural identities against the public hiding generators
    for (i, lp) in sess.prover.polys.iter().enumerate() {
        let plain_lp = LabeledPolynomial::new(lp.label().clone(), lp.polynomial().clone(), lp.degree_bound(), None);
        let ck = &sess.prover.ck;
        let plain = if fam == Family::Hyrax { None } else {
            match step(|| PcOf::<S>::commit(ck, [&plain_lp], None)) {
                Outcome::Ok((mut c, _)) if c.len() == 1 => Some(c.pop().unwrap()),
                _ => None,
            }
        };
        if fam != Family::Hyrax && plain.is_none() {
            res.stats.probe("vacuous:non-hiding-commit-failed");
            continue;
        }
        if let Some(fails) = S::hiding_audit(ck, lp, sess.prover.comms[i].commitment(), plain.as_ref().map(|c| c.commitment()), &sess.prover.states[i]) {
            res.stats.fire("structure-audited");
            res.classes.insert(format!("{famn}|{cfgc}|audit|h{:?}b{}|{}", scn.polys[i].hiding.map(|h| h.min(3)), scn.polys[i].degree_bound.is_some() as u8, fails.len().min(1)));
            for f in fails {
                bad(&mut res, "structure", "commitment", format!("{} (h = {:?}, bound = {:?}): {f}", scn.polys[i].label, scn.polys[i].hiding, scn.polys[i].degree_bound));
            }
        }
        // freshness inside one commit call: two hiding polynomials never share a state
        for j in 0..i {
            let hiding_both = (scn.polys[i].hiding.is_some() && scn.polys[j].hiding.is_some()) || fam == Family::Hyrax;
            if hiding_both && fam != Family::Hyrax && to_bytes(&sess.prover.states[i], Compress::Yes) == to_bytes(&sess.prover.states[j], Compress::Yes) {
                bad(&mut res, "structure", "state", format!("{} and {} were blinded with the same randomness", scn.polys[i].label, scn.polys[j].label));
            }
        }
    }

    // ---- proofs: blinding fields, and random_v == blinding polynomials at the point under the transcript challenges
    let mut proofs_a: Vec<Option<Vec<u8>>> = vec![];
    let mut blind_a: Vec<Option<Vec<u8>>> = vec![];
    for (i, op) in scn.ops.iter().enumerate() {
        let before = sess.prover.sponge.squeezed_fe.borrow().len();
        let claim = match sess.prove(op, i as u64) {
            Outcome::Ok(c) => c,
            _ => { res.stats.probe("vacuous:honest-prover-failed"); proofs_a.push(None); blind_a.push(None); continue }
        };
        proofs_a.push(Some(claim.proof_bytes()));
        // RNG accounting of the prover step: IPA blinds an opening of hiding polynomials with a fresh
        // polynomial of full degree plus one scalar; Hyrax draws dim + 3 scalars per polynomial
        if let Op::Open { polys, .. } = op {
            use ark_poly_commit::PCCommitterKey;
            let drawn = sess.last_open_rng_bytes;
            let need = match fam {
                Family::Ipa if polys.iter().any(|&p| scn.polys[p].hiding.is_some()) => (sess.prover.ck.supported_degree() as u64 + 2) * fe_bytes::<S::F>(),
                Family::Hyrax => polys.len() as u64 * ((1u64 << (scn.cfg.num_vars.unwrap_or(0) / 2)) + 3) * fe_bytes::<S::F>(),
                _ => 0,
            };
            if need > 0 {
                res.stats.fire("rng-counted-open");
                if drawn < need {
                    bad(&mut res, "rng-accounting", "open", format!("open drew {drawn} bytes from the caller's RNG; blinding this opening needs at least {need}"));
                }
            }
        }
        let (d, _) = sess.verify(&claim, i as u64);
        if !d.accepted() { res.stats.probe("vacuous:honest-not-accepted"); }
        match (&claim, op) {
            (Claim::Open { proof, .. }, Op::Open { polys, point }) => {
                let hiding_here = polys.iter().any(|&p| scn.polys[p].hiding.is_some()) || fam == Family::Hyrax;
                let bb = S::proof_blinding_bytes(proof);
                if hiding_here && bb.is_none() {
                    bad(&mut res, "proof-blinding", "proof", format!("opening of hiding polynomials carries no blinding field (op {i})"));
                }
                if !hiding_here && bb.is_some() && fam != Family::Hyrax {
                    bad(&mut res, "proof-blinding", "proof", format!("opening of non-hiding polynomials carries a blinding field (op {i})"));
                }
                blind_a.push(bb);
                let ch: Vec<S::F> = sess.prover.sponge.squeezed_fe.borrow()[before..].iter().filter_map(|b| S::F::deserialize_compressed(&b[..]).ok()).collect();
                let lps: Vec<_> = polys.iter().map(|&p| &sess.prover.polys[p]).collect();
                let sts: Vec<_> = polys.iter().map(|&p| &sess.prover.states[p]).collect();
                if let Some((got, want)) = S::random_v_check(proof, &lps, &sts, &sess.points[*point], &ch) {
                    res.stats.fire("random_v-recomputed");
                    res.classes.insert(format!("{famn}|{cfgc}|random_v|{}|{}", polys.len().min(3), (got == want) as u8));
                    if got != want {
                        bad(&mut res, "random_v", "proof", format!("proof.random_v is not the blinding polynomials' contribution at the point (op {i}, {} polynomials)", polys.len()));
                    }
                }
            }
            _ => blind_a.push(None),
        }
    }

    // ---- (c) fork tests on the RNG seam
    let quiet = EventLog::new(false);
    // same streams => byte-identical commitments and proofs
    if let Ok(mut twin) = Sess::<S>::start(scn, &quiet) {
        res.stats.fire("rng-fork-same-stream");
        for (a, b) in sess.prover.comms.iter().zip(twin.prover.comms.iter()) {
            if to_bytes(a.commitment(), Compress::Yes) != to_bytes(b.commitment(), Compress::Yes) {
                bad(&mut res, "fork-same-stream", "commitment", format!("two executions with identical RNG streams produced different commitments for {}", a.label()));
            }
        }
        for (i, op) in scn.ops.iter().enumerate() {
            if let (Outcome::Ok(c), Some(Some(pa))) = (twin.prove(op, i as u64), proofs_a.get(i)) {
                let _ = twin.verify(&c, i as u64);
                if &c.proof_bytes() != pa {
                    bad(&mut res, "fork-same-stream", "proof", format!("two executions with identical RNG streams produced different proofs for op {i}"));
                }
            }
        }
    }
    // another prover stream => hiding commitments and blinding fields differ, non-hiding ones do not
    let mut scn2 = scn.clone();
    scn2.env.prover_rng_stream = 1;
    if let Ok(mut other) = Sess::<S>::start(&scn2, &quiet) {
        res.stats.fire("rng-fork-other-stream");
        for (i, (a, b)) in sess.prover.comms.iter().zip(other.prover.comms.iter()).enumerate() {
            let same = to_bytes(a.commitment(), Compress::Yes) == to_bytes(b.commitment(), Compress::Yes);
            let hiding = scn.polys[i].hiding.is_some() || fam == Family::Hyrax;
            res.classes.insert(format!("{famn}|{cfgc}|fork-other|hiding{}|same{}", hiding as u8, same as u8));
            if hiding && same {
                bad(&mut res, "fork-other-stream", "commitment", format!("hiding commitment of {} does not depend on the caller's RNG stream", a.label()));
            }
            if !hiding && !same {
                bad(&mut res, "fork-other-stream", "commitment", format!("non-hiding commitment of {} depends on the RNG stream", a.label()));
            }
        }
        for (i, op) in scn.ops.iter().enumerate() {
            if let (Outcome::Ok(Claim::Open { proof, .. }), Some(Some(ba))) = (other.prove(op, i as u64), blind_a.get(i)) {
                if S::proof_blinding_bytes(&proof).as_ref() == Some(ba) {
                    bad(&mut res, "fork-other-stream", "proof", format!("blinding fields of the proof for op {i} do not depend on the RNG stream"));
                }
            } else if let Op::Batch { .. } = op {
                // keep both provers' sponges aligned for later ops
            }
        }
    }
    // N commitments to the same polynomial from one stream are pairwise distinct
    if let Some(i) = (0..scn.polys.len()).find(|&i| scn.polys[i].hiding.is_some() || fam == Family::Hyrax) {
        let lp = &sess.prover.polys[i];
        let ck = &sess.prover.ck;
        let mut rng = SimRng::new(scn.seed, "repeat", 0);
        hyrax_seed(Some(mix64(scn.seed, "hyrax-repeat", 0)));
        let mut seen: Vec<Vec<u8>> = vec![];
        let many: Vec<&LabeledPolynomial<S::F, S::P>> = (0..REPEATS).map(|_| lp).collect();
        if let Outcome::Ok((cs, _)) = step(|| PcOf::<S>::commit(ck, many.iter().copied(), Some(&mut rng))) {
            res.stats.fire("repeat-commitments");
            for c in &cs {
                let b = to_bytes(c.commitment(), Compress::Yes);
                if seen.contains(&b) {
                    bad(&mut res, "repeat-distinct", "commitment", format!("{} commitments to {} with one RNG are not pairwise distinct", REPEATS, lp.label()));
                    break;
                }
                seen.push(b);
            }
        }
        // ---- (d) absent RNG: never an unblinded commitment
        if fam != Family::Hyrax {
            res.stats.fire("rng-absent");
            let o = step(|| PcOf::<S>::commit(ck, [lp], None));
            res.classes.insert(format!("{famn}|{cfgc}|rng-absent|{}", o.kind()));
            if o.is_ok() {
                bad(&mut res, "rng-absent", "commit", format!("commit of hiding polynomial {} without an RNG returned a commitment", lp.label()));
            }
        } else {
            // Hyrax under `parallel` never consults the caller's RNG in commit; its prover does
            let pr = &sess.prover;
            let mut sp = pr.sponge.fork();
            let z = &sess.points[0];
            res.stats.fire("rng-absent");
            let o = step(|| PcOf::<S>::open(&pr.ck, [&pr.polys[i]], [&pr.comms[i]], z, &mut sp, [&pr.states[i]], None));
            if o.is_ok() {
                bad(&mut res, "rng-absent", "open", "Hyrax open without an RNG returned a proof".into());
            }
        }
    }
    let st = sess.stats.clone();
    res.stats.merge(&st);
    res
}
