//! C10 — the verifier decides exactly the scheme's published relation (DESIGN.md §3.8): refinement
//! of the library verifier against the harness's reference evaluator over the single-fault
//! neighbourhood of honest transcripts (every verifier-visible component replaced by a fresh valid
//! element of the same type).
use super::c05::group;
use super::common::*;
use super::RunResult;
use crate::gen::{pick_scheme, Gen};
use crate::scenario::*;
use crate::schemes::*;
use crate::seams::*;
use crate::session::*;
use ark_ff::Zero;
use ark_poly_commit::{Evaluations, LabeledCommitment, QuerySet};
use ark_std::rand::Rng;

pub const KINDS: &[&str] = &["value", "point-coordinate", "commitment-element", "degree-bound-label", "proof-element", "vk-element", "lc-coefficient", "lc-constant"];

pub fn generate(run_seed: u64) -> Scenario {
    let mut g = Gen::new(run_seed);
    let scheme = pick_scheme(&mut g.r, &|_| true);
    let (cfg, polys) = g.workload(&scheme, 3);
    let mut points = g.points(3);
    let n_ops = g.r.gen_range(1..=2);
    let mut ops: Vec<Op> = (0..n_ops).map(|_| g.any_op(&polys, points.len(), 0.25, 0.35)).collect();
    g.lc_stress(&polys, &mut points, &mut ops);
    let mut faults = vec![];
    for oi in 0..n_ops {
        for k in KINDS {
            if g.r.gen_bool(0.75) {
                faults.push(Fault { kind: k.to_string(), op: oi, target: g.r.gen_range(0..8), aux: g.r.gen_range(0..8), param: g.r.gen() });
            }
        }
    }
    let benign = g.r.gen_bool(0.3);
    let env = g.env(n_ops, benign);
    let sched = g.sched();
    Scenario { property: "C10".into(), scheme, seed: run_seed, cfg, polys, points, ops, faults, sched, env }
}

fn shape_preserving(name: &str) -> bool {
    name.ends_with("-replaced") || name.ends_with("-identity") || name.ends_with("-negated")
}

fn delta<F: ark_ff::PrimeField>(seed: u64, k: u64) -> F {
    loop {
        let d = F::rand(&mut stream(seed, "delta", k));
        if !d.is_zero() {
            return d;
        }
    }
}

/// reference decision for a whole batch: AND of the per-point-label relation on one sponge
fn reference_batch<S: Scheme>(vk: &Vk<S>, comms: &[LabeledCommitment<Comm<S>>], qs: &QuerySet<S::Pt>, evals: &Evaluations<S::Pt, S::F>, proof: &BatchProof<S>, sp: &mut TraceSponge<S::F>) -> Option<bool> {
    let groups = group(qs);
    let proofs: Vec<Proof<S>> = proof.clone().into();
    if proofs.len() != groups.len() {
        return Some(false);
    }
    let mut all = true;
    for ((_, (point, labels)), pr) in groups.into_iter().zip(proofs.iter()) {
        let mut cs = vec![];
        let mut vs = vec![];
        for l in labels {
            cs.push(comms.iter().find(|c| c.label() == l)?);
            vs.push(*evals.get(&(l.clone(), point.clone()))?);
        }
        all &= S::reference_check(vk, &cs, point, &vs, pr, sp)?;
    }
    Some(all)
}

/// Reference decision for `check_combinations`: the LC statement reduced to a batch statement by
/// the harness's own algebra, then the per-point reference relation.
fn reference_lc<S: Scheme>(
    vk: &Vk<S>,
    comms: &[LabeledCommitment<Comm<S>>],
    lcs: &[ark_poly_commit::LinearCombination<S::F>],
    qs: &QuerySet<S::Pt>,
    evals: &Evaluations<S::Pt, S::F>,
    proof: &ark_poly_commit::BatchLCProof<S::F, BatchProof<S>>,
    sp: &mut TraceSponge<S::F>,
) -> Option<bool> {
    use ark_ff::One;
    use ark_poly_commit::LCTerm;
    let lc_of = |label: &String| lcs.iter().find(|l| l.label() == label);
    match &proof.evals {
        Some(transmitted) => {
            // default path: one transmitted evaluation per distinct (polynomial, point), sorted
            let mut poly_qs: QuerySet<S::Pt> = QuerySet::new();
            for (l, (pl, pt)) in qs.iter() {
                let Some(lc) = lc_of(l) else { continue };
                for (_, t) in lc.terms.iter() {
                    if let LCTerm::PolyLabel(p) = t {
                        poly_qs.insert((p.clone(), (pl.clone(), pt.clone())));
                    }
                }
            }
            let keys: std::collections::BTreeSet<(String, S::Pt)> = poly_qs.iter().map(|(p, (_, pt))| (p.clone(), pt.clone())).collect();
            if keys.len() != transmitted.len() {
                return Some(false);
            }
            let poly_evals: Evaluations<S::Pt, S::F> = keys.into_iter().zip(transmitted.iter().copied()).collect();
            for (l, (_, pt)) in qs.iter() {
                let Some(lc) = lc_of(l) else { continue };
                let claimed = *evals.get(&(l.clone(), pt.clone()))?;
                let mut acc = S::F::zero();
                for (c, t) in lc.terms.iter() {
                    acc += *c * match t {
                        LCTerm::One => S::F::one(),
                        LCTerm::PolyLabel(p) => *poly_evals.get(&(p.clone(), pt.clone()))?,
                    };
                }
                if acc != claimed {
                    return Some(false);
                }
            }
            reference_batch::<S>(vk, comms, &poly_qs, &poly_evals, &proof.proof, sp)
        }
        None => {
            // homomorphic path: LC commitments, constants moved to the value side once per (LC, point)
            let mut lc_comms = vec![];
            let mut adjusted = evals.clone();
            for lc in lcs.iter() {
                let mut terms = vec![];
                let mut bound = None;
                let mut konst = S::F::zero();
                for (c, t) in lc.terms.iter() {
                    match t {
                        LCTerm::One => konst += *c,
                        LCTerm::PolyLabel(p) => {
                            let cm = comms.iter().find(|x| x.label() == p)?;
                            if cm.degree_bound().is_some() {
                                if lc.terms.len() == 1 && c.is_one() { bound = cm.degree_bound(); } else { return Some(false); }
                            }
                            terms.push((*c, cm.commitment()));
                        }
                    }
                }
                for ((l, _), v) in adjusted.iter_mut() {
                    if l == lc.label() { *v -= konst; }
                }
                lc_comms.push(LabeledCommitment::new(lc.label().clone(), S::combine_comms(&terms)?, bound));
            }
            reference_batch::<S>(vk, &lc_comms, qs, &adjusted, &proof.proof, sp)
        }
    }
}

pub fn run<S: Scheme>(scn: &Scenario, log: &EventLog) -> RunResult {
    let mut res = RunResult::default();
    let fam = format!("{:?}", S::FAMILY);
    let Some(mut sess) = start_or_vacuous::<S>(scn, log, &mut res) else { return res };
    for (i, op) in scn.ops.iter().enumerate() {
        if do_restarts(&mut sess, i).is_err() {
            break;
        }
        // no acceptance precondition: "the library rejects an honest transcript for which the relation
        // holds" is itself a disagreement between the two decision procedures
        let claim = match sess.prove(op, i as u64) {
            Outcome::Ok(c) => c,
            _ => { res.stats.probe("vacuous:honest-prover-failed"); break }
        };
        let Ok(claim) = claim.through_channel(&scn.env, 500 + i as u64) else { res.stats.probe("vacuous:channel"); break };
        let shape = op_shape(op, scn);
        let kind = op_kind(op);
        // transcripts of the neighbourhood: (component name, verifier key, commitment list, claim)
        let mut cases: Vec<(String, Vk<S>, Vec<LabeledCommitment<Comm<S>>>, Claim<S>)> = vec![("honest".into(), sess.verifier.vk.clone(), sess.verifier.comms.clone(), claim.clone())];
        let labels_of_op: Vec<String> = match &claim {
            Claim::Open { labels, .. } => labels.clone(),
            Claim::Batch { qs, .. } => qs.iter().map(|q| q.0.clone()).collect(),
            Claim::Lc { lcs, .. } => {
                let mut v: Vec<String> = lcs.iter().flat_map(|l| l.terms.iter().filter_map(|t| match &t.1 { ark_poly_commit::LCTerm::PolyLabel(p) => Some(p.clone()), _ => None })).collect();
                v.sort();
                v.dedup();
                v
            }
        };
        for (fi, f) in scn.faults.iter().enumerate().filter(|(_, f)| f.op == i) {
            let vseed = mix64(scn.seed, "c10", fi as u64);
            match f.kind.as_str() {
                "value" => {
                    let mut c = claim.clone();
                    match &mut c {
                        Claim::Open { values, .. } => { let n = values.len(); values[f.target % n] += delta::<S::F>(scn.seed, f.param); }
                        Claim::Batch { evals, .. } | Claim::Lc { evals, .. } => { let n = evals.len(); if let Some(v) = evals.values_mut().nth(f.target % n) { *v += delta::<S::F>(scn.seed, f.param); } }
                    }
                    cases.push(("value".into(), sess.verifier.vk.clone(), sess.verifier.comms.clone(), c));
                }
                "point-coordinate" => {
                    let mut c = claim.clone();
                    let ok = match &mut c {
                        Claim::Open { point, .. } => { if S::P::point_len(point) == 0 { false } else { *point = S::P::shift_point(point, f.target, delta::<S::F>(scn.seed, f.param)); true } }
                        Claim::Batch { qs, evals, .. } | Claim::Lc { qs, evals, .. } => {
                            // move the point of one point label (statement keys move with it)
                            let Some((_, (pl, old))) = qs.iter().nth(f.target % qs.len()).cloned() else { continue };
                            if S::P::point_len(&old) == 0 { false } else {
                                let new = S::P::shift_point(&old, f.aux, delta::<S::F>(scn.seed, f.param));
                                let moved: Vec<_> = qs.iter().filter(|q| q.1 .0 == pl).cloned().collect();
                                for q in moved {
                                    qs.remove(&q);
                                    qs.insert((q.0.clone(), (pl.clone(), new.clone())));
                                    if let Some(v) = evals.get(&(q.0.clone(), old.clone())).copied() { evals.insert((q.0.clone(), new.clone()), v); }
                                }
                                true
                            }
                        }
                    };
                    if ok { cases.push(("point-coordinate".into(), sess.verifier.vk.clone(), sess.verifier.comms.clone(), c)); }
                }
                "commitment-element" => {
                    if labels_of_op.is_empty() { continue; }
                    let victim = &labels_of_op[f.target % labels_of_op.len()];
                    let Some(orig) = sess.verifier.comms.iter().find(|c| c.label() == victim) else { continue };
                    for (name, c2) in S::comm_variants(orig.commitment(), vseed) {
                        let list: Vec<_> = sess.verifier.comms.iter().map(|c| if c.label() == victim { LabeledCommitment::new(c.label().clone(), c2.clone(), c.degree_bound()) } else { c.clone() }).collect();
                        cases.push((format!("commitment.{name}"), sess.verifier.vk.clone(), list, claim.clone()));
                    }
                }
                "degree-bound-label" => {
                    if !S::FAMILY.has_degree_bounds() || labels_of_op.is_empty() { continue; }
                    let victim = &labels_of_op[f.target % labels_of_op.len()];
                    let Some(orig) = sess.verifier.comms.iter().find(|c| c.label() == victim) else { continue };
                    let Some(d0) = orig.degree_bound() else { continue };
                    let pool: Vec<usize> = if S::FAMILY == Family::Ipa { (0..=scn.cfg.supported_degree).collect() } else { scn.cfg.bounds.clone().unwrap_or_default() };
                    // every other run: any bound up to max_degree, enforced by the keys or not
                    let pool: Vec<usize> = if f.param % 2 == 0 { pool } else { (0..=scn.cfg.max_degree).collect() };
                    let others: Vec<usize> = pool.into_iter().filter(|d| *d != d0).collect();
                    if others.is_empty() { continue; }
                    let d = others[((f.param >> 1) as usize) % others.len()];
                    let list: Vec<_> = sess.verifier.comms.iter().map(|c| if c.label() == victim { LabeledCommitment::new(c.label().clone(), c.commitment().clone(), Some(d)) } else { c.clone() }).collect();
                    cases.push(("degree-bound-label".into(), sess.verifier.vk.clone(), list, claim.clone()));
                }
                "proof-element" => match &claim {
                    Claim::Open { proof, .. } => {
                        for (name, p2) in S::proof_variants(proof, vseed).into_iter().filter(|(n, _)| shape_preserving(n)) {
                            let mut c = claim.clone();
                            if let Claim::Open { proof, .. } = &mut c { *proof = p2; }
                            cases.push((format!("proof.{name}"), sess.verifier.vk.clone(), sess.verifier.comms.clone(), c));
                        }
                    }
                    Claim::Batch { proof, .. } => {
                        let list: Vec<Proof<S>> = proof.clone().into();
                        if list.is_empty() { continue; }
                        let g = f.target % list.len();
                        for (name, p2) in S::proof_variants(&list[g], vseed).into_iter().filter(|(n, _)| shape_preserving(n)) {
                            let mut l2 = list.clone();
                            l2[g] = p2;
                            let mut c = claim.clone();
                            if let Claim::Batch { proof, .. } = &mut c { *proof = l2.into(); }
                            cases.push((format!("proof.{name}"), sess.verifier.vk.clone(), sess.verifier.comms.clone(), c));
                        }
                    }
                    Claim::Lc { proof, .. } => {
                        let list: Vec<Proof<S>> = proof.proof.clone().into();
                        if list.is_empty() { continue; }
                        let g = f.target % list.len();
                        for (name, p2) in S::proof_variants(&list[g], vseed).into_iter().filter(|(n, _)| shape_preserving(n)) {
                            let mut l2 = list.clone();
                            l2[g] = p2;
                            let mut c = claim.clone();
                            if let Claim::Lc { proof, .. } = &mut c { proof.proof = l2.into(); }
                            cases.push((format!("proof.{name}"), sess.verifier.vk.clone(), sess.verifier.comms.clone(), c));
                        }
                        if let Some(ev) = &proof.evals {
                            if !ev.is_empty() {
                                let mut c = claim.clone();
                                if let Claim::Lc { proof, .. } = &mut c { let k = f.aux % ev.len(); proof.evals.as_mut().unwrap()[k] += delta::<S::F>(scn.seed, f.param); }
                                cases.push(("proof.evals[k]-replaced".into(), sess.verifier.vk.clone(), sess.verifier.comms.clone(), c));
                            }
                        }
                    }
                },
                "lc-coefficient" | "lc-constant" => {
                    if let Claim::Lc { lcs, .. } = &claim {
                        let mut c = claim.clone();
                        let l = f.target % lcs.len();
                        let ok = if let Claim::Lc { lcs, .. } = &mut c {
                            if f.kind == "lc-coefficient" {
                                let t = f.aux % lcs[l].terms.len();
                                lcs[l].terms[t].0 += delta::<S::F>(scn.seed, f.param);
                                true
                            } else {
                                match lcs[l].terms.iter_mut().find(|t| t.1.is_one()) {
                                    Some(t) => t.0 += delta::<S::F>(scn.seed, f.param),
                                    None => lcs[l].terms.push((delta::<S::F>(scn.seed, f.param), ark_poly_commit::LCTerm::One)),
                                }
                                true
                            }
                        } else { false };
                        if ok { cases.push((f.kind.clone(), sess.verifier.vk.clone(), sess.verifier.comms.clone(), c)); }
                    }
                }
                "vk-element" => {
                    for (name, vk2) in S::vk_variants(&sess.verifier.vk, vseed) {
                        cases.push((name, vk2, sess.verifier.comms.clone(), claim.clone()));
                    }
                }
                _ => {}
            }
        }
        for (ci, (name, vk, comms, c)) in cases.iter().enumerate() {
            // library
            let mut sp_l = sess.verifier.sponge.fork();
            let mut rng = SimRng::new(scn.seed, "verifier-scratch", 15_000 + ci as u64);
            sess.stats.checks += 1;
            let (dl, why) = Sess::<S>::check_with(vk, comms, c, &mut sp_l, &mut rng, 0);
            // reference
            let mut sp_r = sess.verifier.sponge.fork();
            let refd: Option<bool> = match c {
                Claim::Open { labels, point, values, proof } => {
                    let cs: Option<Vec<&LabeledCommitment<Comm<S>>>> = labels.iter().map(|l| comms.iter().find(|c| c.label() == l)).collect();
                    match cs {
                        Some(cs) => match step(|| Ok::<_, String>(S::reference_check(vk, &cs, point, values, proof, &mut sp_r))) {
                            Outcome::Ok(r) => r,
                            _ => Some(false),
                        },
                        None => Some(false),
                    }
                }
                Claim::Batch { qs, evals, proof } => match step(|| Ok::<_, String>(reference_batch::<S>(vk, comms, qs, evals, proof, &mut sp_r))) {
                    Outcome::Ok(r) => r,
                    _ => Some(false),
                },
                Claim::Lc { lcs, qs, evals, proof } => match step(|| Ok::<_, String>(reference_lc::<S>(vk, comms, lcs, qs, evals, proof, &mut sp_r))) {
                    Outcome::Ok(r) => r,
                    _ => Some(false),
                },
            };
            let Some(refd) = refd else { res.stats.probe("no-reference"); continue };
            res.stats.fire(if name == "honest" { "honest" } else { name.split('.').next().unwrap() });
            let comp = name.split('[').next().unwrap().to_string();
            log.ev(&format!("case {} {} lib={} ref={}", ci, name, dl.name(), refd));
            res.classes.insert(format!("{fam}|{shape}|{}|{}|lib{}ref{}", cfg_class(scn), comp, dl.accepted() as u8, refd as u8));
            if name == "honest" && !refd {
                res.violations.push(viol(scn, "refinement", "none", &format!("{kind}/honest"), format!("the reference relation does not hold for an honest transcript the library accepts ({shape})")));
                continue;
            }
            if dl.accepted() != refd {
                res.violations.push(viol(scn, "refinement", name.split('.').next().unwrap(), &format!("{kind}/{comp}"), format!("library verifier {} but the reference relation {} after replacing {} ({}) {}", if dl.accepted() { "accepts" } else { "rejects" }, if refd { "holds" } else { "fails" }, name, shape, trunc(&why, 60))));
            }
            // both forks must have consumed the transcript identically when both ran to completion and accepted
            if dl.accepted() && refd && sp_l.state_bytes() != sp_r.state_bytes() {
                res.violations.push(viol(scn, "refinement", "none", &format!("{kind}/transcript"), format!("library and reference end in different sponge states on an accepted transcript ({name})")));
            }
        }
        let (d, _) = sess.verify(&claim, i as u64);
        if !d.accepted() {
            break;
        }
    }
    let st = sess.stats.clone();
    res.stats.merge(&st);
    res
}
