//! C06 — linear-combination openings prove exactly the stated combinations (DESIGN.md §3.6).
use super::c02::value_at;
use super::common::*;
use super::RunResult;
use crate::gen::{n_positions, pick_scheme, Gen};
use crate::scenario::*;
use crate::schemes::*;
use crate::seams::*;
use crate::session::*;
use ark_ff::{Field, One, UniformRand, Zero};
use ark_poly_commit::{LCTerm, LinearCombination};
use ark_std::rand::Rng;
use std::collections::BTreeSet;

pub const KINDS: &[&str] = &["lc-value+delta", "lc-coefficient", "lc-constant", "lc-term-dropped", "lc-evals-perturbed", "lc-mixes-bounded"];

pub fn generate(run_seed: u64) -> Scenario {
    let mut g = Gen::new(run_seed);
    let scheme = pick_scheme(&mut g.r, &|_| true);
    let (cfg, polys) = g.workload(&scheme, 4);
    let mut points = g.points(3);
    let n_ops = g.r.gen_range(1..=2);
    let mut ops: Vec<Op> = (0..n_ops).map(|_| g.lc_op(&polys, points.len())).collect();
    g.lc_stress(&polys, &mut points, &mut ops);
    let enabled: Vec<&str> = KINDS.iter().copied().filter(|_| g.r.gen_bool(0.6)).collect();
    let mut faults = vec![];
    for (oi, op) in ops.iter().enumerate() {
        let Op::Lc { lcs, queries } = op else { continue };
        for k in &enabled {
            match *k {
                "lc-value+delta" => {
                    for pos in 0..queries.len() {
                        faults.push(Fault { kind: k.to_string(), op: oi, target: pos, aux: 0, param: g.r.gen() });
                    }
                }
                "lc-coefficient" | "lc-term-dropped" => {
                    for (l, lc) in lcs.iter().enumerate() {
                        for t in 0..lc.terms.len() {
                            faults.push(Fault { kind: k.to_string(), op: oi, target: l, aux: t, param: g.r.gen() });
                        }
                    }
                }
                "lc-constant" => {
                    for l in 0..lcs.len() {
                        faults.push(Fault { kind: k.to_string(), op: oi, target: l, aux: 0, param: g.r.gen() });
                    }
                }
                "lc-evals-perturbed" => {
                    for pos in 0..queries.len() {
                        faults.push(Fault { kind: k.to_string(), op: oi, target: pos, aux: 0, param: g.r.gen() });
                    }
                }
                "lc-mixes-bounded" => {
                    faults.push(Fault { kind: k.to_string(), op: oi, target: g.r.gen_range(0..8), aux: g.r.gen_range(0..2), param: g.r.gen() });
                }
                _ => {}
            }
        }
    }
    let benign = g.r.gen_bool(0.5);
    let env = g.env(n_ops, benign);
    let sched = g.sched();
    Scenario { property: "C06".into(), scheme, seed: run_seed, cfg, polys, points, ops, faults, sched, env }
}

/// truth of a (possibly tampered) verifier-side LC at point index z
fn lc_value<S: Scheme>(sess: &Sess<S>, lc: &LinearCombination<S::F>, z: usize) -> S::F {
    let mut t = S::F::zero();
    for (c, term) in lc.terms.iter() {
        t += *c * match term {
            LCTerm::One => S::F::one(),
            LCTerm::PolyLabel(l) => {
                let i = sess.scn.polys.iter().position(|p| &p.label == l).expect("label");
                sess.truth(i, z)
            }
        };
    }
    t
}

pub fn run<S: Scheme>(scn: &Scenario, log: &EventLog) -> RunResult {
    let mut res = RunResult::default();
    let fam = format!("{:?}", S::FAMILY);
    let Some(mut sess) = start_or_vacuous::<S>(scn, log, &mut res) else { return res };
    for (i, op) in scn.ops.iter().enumerate() {
        let Op::Lc { lcs: lc_specs, queries } = op else { continue };
        if do_restarts(&mut sess, i).is_err() {
            res.stats.probe("vacuous:restart");
            break;
        }
        let shape = op_shape(op, scn);
        // ---- positive: the honest combination proof is accepted for the true values
        let claim = match sess.prove(op, i as u64) {
            Outcome::Ok(c) => c,
            o => {
                res.violations.push(viol(scn, "liveness", "none", "prove/lc", format!("honest open_combinations failed ({}): {}", shape, o.describe())));
                break;
            }
        };
        let claim = match claim.through_channel(&scn.env, 500 + i as u64) {
            Ok(c) => c,
            Err(e) => {
                res.violations.push(viol(scn, "liveness", "benign-io", "channel", e));
                break;
            }
        };
        let (d, why) = sess.verify_scratch(&claim, 600 + i as u64);
        res.classes.insert(format!("{fam}|{shape}|{}|honest|{}", cfg_class(scn), d.name()));
        if !d.accepted() {
            let shared = shape.ends_with("/shared");
            res.violations.push(viol(scn, "liveness", "none", if shared { "verify/lc-shared-point" } else { "verify/lc" }, format!("honest combination proof not accepted ({}): {} {}", shape, d.name(), trunc(&why, 100))));
            break;
        }
        let points = sess.points.clone();
        // ---- negative: the verifier's view of the statement is corrupted in flight
        for (fi, f) in scn.faults.iter().enumerate().filter(|(_, f)| f.op == i) {
            let mut bad = claim.clone();
            let delta = |k: u64| -> S::F { loop { let d = S::F::rand(&mut stream(scn.seed, "delta", f.param ^ k)); if !d.is_zero() { return d; } } };
            // does the tampered statement contain a false claim?  (only then must it be rejected)
            let mut falsified = false;
            let applied = match f.kind.as_str() {
                "lc-value+delta" => {
                    if f.target >= n_positions(op) { false } else {
                        match value_at::<S>(&mut bad, op, scn, &points, f.target) {
                            Some(v) => { *v += delta(0); falsified = true; true }
                            None => false,
                        }
                    }
                }
                "lc-coefficient" | "lc-term-dropped" | "lc-constant" => {
                    let Claim::Lc { lcs, evals, .. } = &mut bad else { unreachable!() };
                    let l = f.target;
                    if l >= lcs.len() { false } else {
                        let ok = match f.kind.as_str() {
                            "lc-coefficient" => { if f.aux < lcs[l].terms.len() && !lcs[l].terms[f.aux].1.is_one() { lcs[l].terms[f.aux].0 += delta(1); true } else { false } }
                            "lc-term-dropped" => { if f.aux < lcs[l].terms.len() && lcs[l].terms.len() > 1 { lcs[l].terms.remove(f.aux); true } else { false } }
                            _ => {
                                // change an existing constant term, or add one
                                if let Some(t) = lcs[l].terms.iter_mut().find(|t| t.1.is_one()) { t.0 += delta(2); } else { lcs[l].terms.push((delta(2), LCTerm::One)); }
                                true
                            }
                        };
                        if ok {
                            // an LC whose only remaining terms are constants has no polynomial to open
                            if lcs[l].terms.iter().all(|t| t.1.is_one()) { false } else {
                                for &(ql, z) in queries.iter().filter(|q| q.0 == l) {
                                    let claimed = evals.get(&(lc_specs[ql].label.clone(), points[z].clone())).copied();
                                    if claimed != Some(lc_value(&sess, &lcs[l], z)) { falsified = true; }
                                }
                                true
                            }
                        } else { false }
                    }
                }
                "lc-evals-perturbed" => {
                    let Claim::Lc { lcs, proof, .. } = &mut bad else { unreachable!() };
                    match &mut proof.evals {
                        None => false, // schemes with a homomorphic LC path transmit no evaluations
                        Some(evs) => {
                            let (l, z) = queries[f.target % queries.len()];
                            // keys of the transmitted evaluations, in the order the prover emitted them
                            let mut keys: BTreeSet<(String, S::Pt)> = BTreeSet::new();
                            for &(ql, qz) in queries.iter() {
                                for (_, t) in lcs[ql].terms.iter() {
                                    if let LCTerm::PolyLabel(pl) = t { keys.insert((pl.clone(), points[qz].clone())); }
                                }
                            }
                            let keys: Vec<_> = keys.into_iter().collect();
                            // two different polynomials of this LC with non-zero total coefficient
                            let mut tot: std::collections::BTreeMap<String, S::F> = Default::default();
                            for (c, t) in lcs[l].terms.iter() {
                                if let LCTerm::PolyLabel(pl) = t { *tot.entry(pl.clone()).or_insert(S::F::zero()) += *c; }
                            }
                            let cands: Vec<(String, S::F)> = tot.into_iter().filter(|(_, c)| !c.is_zero()).collect();
                            if cands.len() < 2 || evs.len() != keys.len() { false } else {
                                let (la, ca) = cands[0].clone();
                                let (lb, cb) = cands[1].clone();
                                let ia = keys.iter().position(|k| k.0 == la && k.1 == points[z]);
                                let ib = keys.iter().position(|k| k.0 == lb && k.1 == points[z]);
                                match (ia, ib) {
                                    (Some(ia), Some(ib)) => {
                                        let d = delta(3);
                                        evs[ia] += d * ca.inverse().unwrap();
                                        evs[ib] -= d * cb.inverse().unwrap();
                                        falsified = true; // two transmitted polynomial evaluations are now false
                                        true
                                    }
                                    _ => false,
                                }
                            }
                        }
                    }
                }
                "lc-mixes-bounded" => {
                    // handled below (needs the prover too)
                    false
                }
                _ => false,
            };
            if f.kind == "lc-mixes-bounded" {
                mixes_bounded::<S>(&mut sess, scn, i, fi, f, &claim, &mut res, log);
                continue;
            }
            if !applied {
                res.stats.probe("fault-not-applicable");
                continue;
            }
            if !falsified {
                res.stats.probe("fault-kept-statement-true");
                continue;
            }
            res.stats.fire(&f.kind);
            let (d, why) = sess.verify_scratch(&bad, 9000 + fi as u64);
            log.ev(&format!("fault {} op{} target={} aux={} -> {}", f.kind, i, f.target, f.aux, d.name()));
            res.classes.insert(format!("{fam}|{shape}|{}|{}|{}", cfg_class(scn), f.kind, d.name()));
            if d.accepted() {
                res.violations.push(viol(scn, "safety", &f.kind, "lc", format!("tampered combination statement accepted: {} at op {} ({}) target {} aux {} {}", f.kind, i, shape, f.target, f.aux, why)));
            }
        }
        let (d, _) = sess.verify(&claim, i as u64);
        if !d.accepted() {
            break;
        }
    }
    let st = sess.stats.clone();
    res.stats.merge(&st);
    res
}

/// Degree-bound policy: an LC mixing a degree-bounded polynomial with another term must be refused
/// on both sides, never opened (or accepted) without the bound.
fn mixes_bounded<S: Scheme>(sess: &mut Sess<S>, scn: &Scenario, i: usize, fi: usize, f: &Fault, honest: &Claim<S>, res: &mut RunResult, log: &EventLog) {
    if !S::FAMILY.has_degree_bounds() {
        res.stats.probe("fault-not-applicable");
        return;
    }
    let bounded: Vec<usize> = (0..scn.polys.len()).filter(|&p| scn.polys[p].degree_bound.is_some()).collect();
    if bounded.is_empty() {
        res.stats.probe("fault-not-applicable");
        return;
    }
    let b = bounded[f.target % bounded.len()];
    // bounded polynomial + (constant | another polynomial)
    let other: Option<usize> = if f.aux == 0 || scn.polys.len() < 2 { None } else { Some((b + 1 + (f.param as usize) % (scn.polys.len() - 1)) % scn.polys.len()) };
    let spec = LcSpec { label: "mix".into(), terms: vec![(Coeff::One, Some(b)), (Coeff::Rand(f.param % 997), other)] };
    let z = (f.param as usize / 7) % scn.points.len();
    let op = Op::Lc { lcs: vec![spec], queries: vec![(0, z)] };
    res.stats.fire("lc-mixes-bounded");
    // prover side, on a scratch sponge
    let saved = sess.prover.sponge.fork();
    let out = sess.prove(&op, 1000 + i as u64);
    sess.prover.sponge = saved;
    log.ev(&format!("lc-mixes-bounded prover -> {}", out.kind()));
    res.classes.insert(format!("{:?}|mix|{}|lc-mixes-bounded|prover-{}", S::FAMILY, if other.is_some() { "poly" } else { "const" }, out.kind()));
    if let Outcome::Ok(_) = &out {
        res.violations.push(viol(scn, "policy", "lc-mixes-bounded", "open_combinations", format!("open_combinations answered an LC that mixes degree-bounded {} with {} instead of refusing it", scn.polys[b].label, if other.is_some() { "another polynomial" } else { "a constant" })));
    }
    // verifier side: the mixed statement together with some well-formed proof
    let (qs, evals) = sess.statement(&op);
    let Claim::Lc { proof, .. } = honest else { return };
    let lcs = match &op { Op::Lc { lcs, .. } => lcs.iter().map(|l| sess.build_lc(l)).collect(), _ => vec![] };
    let bad: Claim<S> = Claim::Lc { lcs, qs, evals, proof: proof.clone() };
    let (d, _) = sess.verify_scratch(&bad, 12_000 + fi as u64);
    res.classes.insert(format!("{:?}|mix|lc-mixes-bounded|verifier-{}", S::FAMILY, d.name()));
    if d.accepted() {
        res.violations.push(viol(scn, "policy", "lc-mixes-bounded", "check_combinations", "check_combinations accepted an LC that mixes a degree-bounded polynomial with other terms".into()));
    }
}
