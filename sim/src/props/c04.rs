//! C04 — degree bounds are enforced by committer and verifier (Marlin, Sonic, IPA) (DESIGN.md §3.4).
use super::c02::op_mentions;
use super::common::*;
use super::RunResult;
use crate::gen::Gen;
use crate::scenario::*;
use crate::schemes::*;
use crate::seams::*;
use crate::session::*;
use ark_ff::{One, UniformRand, Zero as _};
use ark_poly_commit::{Evaluations, LabeledCommitment, LabeledPolynomial, PCCommitterKey, PolynomialCommitment, QuerySet};
use ark_serialize::CanonicalDeserialize;
use ark_std::rand::Rng;

pub const VERIFIER_KINDS: &[&str] = &["prover-other-trim", "bound-mislabelled", "bound-mislabelled-unenforced", "bound-mislabelled-both", "bound-label-dropped", "shifted-dropped", "shifted-swapped", "shifted-exchanged", "shifted-identity", "unbounded-gets-label-identity-shift", "surplus-shifted-substitution", "shifted-other-bound", "unbounded-gets-label"];
pub const PROVER_KINDS: &[&str] = &["commit-degree-exceeds-bound", "commit-bound-not-enforced", "commit-no-bounds-in-key", "commit-degree-exceeds-supported", "commit-bound-above-supported", "open-degree-exceeds-bound", "open-bound-not-enforced"];

pub fn generate(run_seed: u64) -> Scenario {
    let mut g = Gen::new(run_seed);
    let cands: Vec<&&str> = SCHEMES.iter().filter(|s| family_of(s).has_degree_bounds()).collect();
    let scheme = cands[g.r.gen_range(0..cands.len())].to_string();
    let fam = family_of(&scheme);
    let (mut cfg, mut polys) = g.workload(&scheme, 4);
    // the property is about bounds: make sure >= 2 bounds are enforced and some polynomial carries one
    if fam != Family::Ipa {
        let mut b = cfg.bounds.clone().unwrap_or_default();
        while b.iter().collect::<std::collections::BTreeSet<_>>().len() < 2.min(cfg.supported_degree) {
            b.push(g.r.gen_range(1..=cfg.supported_degree));
        }
        cfg.bounds = Some(b);
    }
    let usable = |deg: usize, cfg: &KeyCfg, g: &mut Gen| -> Option<usize> {
        if fam == Family::Ipa {
            Some(g.r.gen_range(deg..=cfg.supported_degree))
        } else {
            let u: Vec<usize> = cfg.bounds.clone().unwrap_or_default().into_iter().filter(|b| *b >= deg).collect();
            if u.is_empty() { None } else { Some(u[g.r.gen_range(0..u.len())]) }
        }
    };
    for i in 0..polys.len() {
        if polys[i].degree_bound.is_none() && g.r.gen_bool(0.6) {
            // exact-degree positive control: deg p == d
            if fam != Family::Ipa && g.r.gen_bool(0.3) {
                let b = cfg.bounds.as_ref().unwrap()[0];
                polys[i].degree = b;
                polys[i].shape = Shape::Dense;
            }
            polys[i].degree_bound = usable(polys[i].degree, &cfg, &mut g);
            if let (Family::Sonic, Some(b), Some(h)) = (fam, polys[i].degree_bound, polys[i].hiding) {
                polys[i].hiding = Some(h.min(b).max(1));
            }
        }
    }
    let points = g.points(3);
    let n_ops = g.r.gen_range(1..=2);
    // a quarter of the operations are combination openings (check_combinations enforces bounds too)
    let ops: Vec<Op> = (0..n_ops).map(|_| g.any_op(&polys, points.len(), 0.25, 0.5)).collect();
    let mut faults = vec![];
    for (oi, _) in ops.iter().enumerate() {
        for k in VERIFIER_KINDS {
            if g.r.gen_bool(0.6) {
                for p in 0..polys.len() {
                    faults.push(Fault { kind: k.to_string(), op: oi, target: p, aux: g.r.gen_range(0..16), param: g.r.gen() });
                }
            }
        }
    }
    for k in PROVER_KINDS {
        if g.r.gen_bool(0.6) {
            faults.push(Fault { kind: k.to_string(), op: 0, target: g.r.gen_range(0..polys.len()), aux: g.r.gen_range(0..16), param: g.r.gen() });
        }
    }
    let benign = g.r.gen_bool(0.3);
    let env = g.env(n_ops, benign);
    let sched = g.sched();
    Scenario { property: "C04".into(), scheme, seed: run_seed, cfg, polys, points, ops, faults, sched, env }
}

fn relabel<S: Scheme>(c: &LabeledCommitment<Comm<S>>, comm: Comm<S>, bound: Option<usize>) -> LabeledCommitment<Comm<S>> {
    LabeledCommitment::new(c.label().clone(), comm, bound)
}

pub fn run<S: Scheme>(scn: &Scenario, log: &EventLog) -> RunResult {
    let mut res = RunResult::default();
    let fam = S::FAMILY;
    let famn = format!("{:?}", fam);
    if !fam.has_degree_bounds() {
        res.harness = Some("C04 scenario for a scheme without degree bounds".into());
        return res;
    }
    let Some(mut sess) = start_or_vacuous::<S>(scn, log, &mut res) else { return res };
    let cfg = &scn.cfg;
    let sup = sess.prover.ck.supported_degree();
    let all_bounds: Vec<usize> = if fam == Family::Ipa { (0..=sup).collect() } else { let mut b = cfg.bounds.clone().unwrap_or_default(); b.sort(); b.dedup(); b };

    for (i, op) in scn.ops.iter().enumerate() {
        if do_restarts(&mut sess, i).is_err() {
            break;
        }
        let pre_prover_sponge = sess.prover.sponge.fork();
        let Some(claim) = honest_claim(&mut sess, op, i, &mut res) else { break };
        let shape = op_shape(op, scn);
        res.classes.insert(format!("{famn}|{shape}|{}|honest|accept", cfg_class(scn)));
        for (fi, f) in scn.faults.iter().enumerate().filter(|(_, f)| f.op == i && VERIFIER_KINDS.contains(&f.kind.as_str())) {
            let p = f.target;
            if p >= scn.polys.len() || !op_mentions(op, p) {
                res.stats.probe("fault-not-applicable");
                continue;
            }
            let label = &scn.polys[p].label;
            let dprime = scn.polys[p].degree_bound;
            let mine: LabeledCommitment<Comm<S>> = sess.verifier.comms.iter().find(|c| c.label() == label).unwrap().clone();
            let mut rng = SimRng::new(scn.seed, "byzantine", fi as u64);
            let mut bad_claim: Option<Claim<S>> = None;
            // a second commitment replaced together with the first (shifted-exchanged)
            let mut second: Option<LabeledCommitment<Comm<S>>> = None;
            // the faulted commitment as the verifier will see it
            let faulted: Option<LabeledCommitment<Comm<S>>> = match (f.kind.as_str(), dprime) {
                ("bound-mislabelled", Some(dp)) | ("bound-mislabelled-both", Some(dp)) => {
                    let others: Vec<usize> = all_bounds.iter().copied().filter(|d| *d != dp).collect();
                    if others.is_empty() { None } else {
                        let d = others[f.aux % others.len()];
                        if f.kind == "bound-mislabelled-both" {
                            // byzantine prover: relabels polynomial and commitment with d on its own side and
                            // runs the library prover on them (commitment and state were made under d')
                            let mut polys2 = sess.prover.polys.clone();
                            polys2[p] = LabeledPolynomial::new(label.clone(), polys2[p].polynomial().clone(), Some(d), scn.polys[p].hiding);
                            let mut comms2 = sess.prover.comms.clone();
                            comms2[p] = relabel::<S>(&comms2[p], comms2[p].commitment().clone(), Some(d));
                            let (qs, evals) = sess.statement(op);
                            let mut sp = pre_prover_sponge.fork();
                            match Sess::<S>::prove_on(scn, &sess.points, &sess.prover.ck, &polys2, &comms2, &sess.prover.states, &sess.prover.order, op, qs, evals, &mut sp, Some(&mut rng)) {
                                Outcome::Ok(c) => { bad_claim = Some(c); Some(relabel::<S>(&mine, mine.commitment().clone(), Some(d))) }
                                o => { res.stats.probe(&format!("byzantine-prover-{}", o.kind())); None }
                            }
                        } else {
                            Some(relabel::<S>(&mine, mine.commitment().clone(), Some(d)))
                        }
                    }
                }
                ("bound-mislabelled-unenforced", Some(dp)) => {
                    // a bound the keys were never trimmed for (Marlin, Sonic): no honest committer can
                    // have produced it, the verifier has no shift power for it
                    let cands: Vec<usize> = (1..=cfg.max_degree).filter(|d| *d != dp && !all_bounds.contains(d)).collect();
                    if cands.is_empty() { None } else {
                        // prefer bounds below some enforced bound (a neighbouring table entry exists)
                        let below: Vec<usize> = cands.iter().copied().filter(|d| all_bounds.iter().any(|b| b > d)).collect();
                        let pool = if !below.is_empty() && f.aux % 4 != 0 { &below } else { &cands };
                        Some(relabel::<S>(&mine, mine.commitment().clone(), Some(pool[(f.param as usize) % pool.len()])))
                    }
                }
                ("prover-other-trim", Some(d)) => {
                    // byzantine prover trims the SAME universal parameters to a larger supported degree
                    // s+k with bound d+k (same distance between supported degree and bound), commits to a
                    // polynomial of degree in (d, d+k] there and presents it to this verifier labelled d
                    let room = cfg.max_degree.saturating_sub(cfg.supported_degree);
                    if room == 0 || fam == Family::Ipa || !matches!(op, Op::Open { .. }) { None } else {
                        let k = 1 + f.aux % room;
                        let (s2, d2) = (cfg.supported_degree + k, d + k);
                        let hid = match (fam, scn.polys[p].hiding) { (Family::Sonic, Some(h)) => Some(h.min(d2).max(1)), (_, h) => h };
                        let spec = PolySpec { label: label.clone(), shape: Shape::Dense, degree: d + 1 + (f.param as usize) % k, degree_bound: Some(d2), hiding: hid, coeff_id: 8000 + fi as u64 };
                        let q = LabeledPolynomial::new(label.clone(), S::P::build(cfg, &spec, scn.seed), Some(d2), hid);
                        let made = match Pp::<S>::deserialize_with_mode(&sess.pp_bytes[..], compress_of(&scn.env), ark_serialize::Validate::No).ok() {
                            None => None,
                            Some(pp) => match step(|| PcOf::<S>::trim(&pp, s2, cfg.supported_hiding, Some(&[d2]))) {
                                Outcome::Ok((ck2, _)) => match step(|| PcOf::<S>::commit(&ck2, [&q], Some(&mut rng))) {
                                    Outcome::Ok((mut c, mut st)) if c.len() == 1 => Some((ck2, c.pop().unwrap(), st.pop().unwrap())),
                                    _ => None,
                                },
                                _ => None,
                            },
                        };
                        match (made, op) {
                            (Some((ck2, c2, st2)), Op::Open { polys: idx, point }) if idx.len() == 1 => {
                                // the byzantine prover shares the verifier's transcript state
                                let mut sp = sess.verifier.sponge.fork();
                                let z = &sess.points[*point];
                                match step(|| PcOf::<S>::open(&ck2, [&q], [&c2], z, &mut sp, [&st2], Some(&mut rng))) {
                                    Outcome::Ok(proof) => {
                                        bad_claim = Some(Claim::Open { labels: vec![label.clone()], point: z.clone(), values: vec![q.polynomial().eval_ref(z)], proof });
                                        Some(relabel::<S>(&mine, c2.commitment().clone(), Some(d)))
                                    }
                                    o => { res.stats.probe(&format!("byzantine-prover-{}", o.kind())); None }
                                }
                            }
                            _ => None,
                        }
                    }
                }
                ("bound-label-dropped", Some(_)) => Some(relabel::<S>(&mine, mine.commitment().clone(), None)),
                ("shifted-dropped", Some(_)) => S::comm_without_shifted(mine.commitment()).map(|c| relabel::<S>(&mine, c, None)),
                ("shifted-swapped", Some(dp)) => {
                    // degree-bound part of another polynomial's commitment
                    let others: Vec<usize> = (0..scn.polys.len()).filter(|&q| q != p && scn.polys[q].degree_bound.is_some()).collect();
                    if others.is_empty() { None } else {
                        let q = others[f.aux % others.len()];
                        let oc = sess.verifier.comms.iter().find(|c| c.label() == &scn.polys[q].label).unwrap();
                        S::comm_with_shifted_of(mine.commitment(), oc.commitment()).filter(|c| to_bytes(c, ark_serialize::Compress::Yes) != to_bytes(mine.commitment(), ark_serialize::Compress::Yes)).map(|c| relabel::<S>(&mine, c, Some(dp)))
                    }
                }
                ("shifted-exchanged", Some(dp)) => {
                    // the degree-bound parts of two bounded polynomials of this operation change places
                    // (each alone is an honest group element of the transcript; only their sum is unchanged)
                    let others: Vec<usize> = (0..scn.polys.len()).filter(|&q| q != p && scn.polys[q].degree_bound.is_some() && op_mentions(op, q)).collect();
                    if others.is_empty() { None } else {
                        let q = others[f.aux % others.len()];
                        let oc = sess.verifier.comms.iter().find(|c| c.label() == &scn.polys[q].label).unwrap().clone();
                        match (S::comm_with_shifted_of(mine.commitment(), oc.commitment()), S::comm_with_shifted_of(oc.commitment(), mine.commitment())) {
                            (Some(a), Some(b)) if to_bytes(&a, ark_serialize::Compress::Yes) != to_bytes(mine.commitment(), ark_serialize::Compress::Yes) => {
                                second = Some(relabel::<S>(&oc, b, scn.polys[q].degree_bound));
                                Some(relabel::<S>(&mine, a, Some(dp)))
                            }
                            _ => None,
                        }
                    }
                }
                ("shifted-identity", Some(dp)) => {
                    // the degree-bound part replaced by the group identity (what an honest committer
                    // produces for the zero polynomial only)
                    S::comm_with_identity_shift(mine.commitment()).filter(|c| to_bytes(c, ark_serialize::Compress::Yes) != to_bytes(mine.commitment(), ark_serialize::Compress::Yes)).map(|c| relabel::<S>(&mine, c, Some(dp)))
                }
                ("unbounded-gets-label-identity-shift", None) => {
                    // an unbounded commitment presented under a bound, with the identity where the
                    // degree-bound part belongs
                    let pool: Vec<usize> = if f.param % 2 == 0 { all_bounds.clone() } else { (1..=cfg.max_degree).collect() };
                    if pool.is_empty() { None } else {
                        S::comm_with_identity_shift(mine.commitment()).map(|c| relabel::<S>(&mine, c, Some(pool[(f.param as usize / 2) % pool.len()])))
                    }
                }
                ("surplus-shifted-substitution", None) => {
                    // An unbounded commitment that carries a degree-bound part nobody asked for. In a
                    // verifier that flattens (plain, shifted?) parts into one list and reads the list back
                    // by *label* bounds, the surplus element takes the place of the next equation's
                    // commitment: two equations lc_p := p, lc_q := q, the surplus part of p is a
                    // commitment to q' = q + d, the byzantine prover opens (p, q') honestly.
                    use ark_poly_commit::{LCTerm, LinearCombination};
                    let others: Vec<usize> = (0..scn.polys.len()).filter(|&q| q != p && scn.polys[q].degree_bound.is_none()).collect();
                    if others.is_empty() || !matches!(op, Op::Open { .. }) { None } else {
                        let q = others[f.aux % others.len()];
                        let (ql, pl) = (scn.polys[q].label.clone(), label.clone());
                        let d: S::F = loop { let x = S::F::rand(&mut stream(scn.seed, "c04-surplus", f.param)); if !x.is_zero() { break x; } };
                        let qf = LabeledPolynomial::new(ql.clone(), sess.prover.polys[q].polynomial().add_const(d), None, scn.polys[q].hiding);
                        let ck = &sess.prover.ck;
                        match step(|| PcOf::<S>::commit(ck, [&qf], Some(&mut rng))) {
                            Outcome::Ok((mut cf, mut sf)) if cf.len() == 1 => {
                                let (cf, sf) = (cf.pop().unwrap(), sf.pop().unwrap());
                                let z = sess.points[0].clone();
                                let zl = scn.points[0].label.clone();
                                let lcs = vec![
                                    LinearCombination::<S::F>::new("lc_p", vec![(S::F::one(), LCTerm::from(pl.clone()))]),
                                    LinearCombination::<S::F>::new("lc_q", vec![(S::F::one(), LCTerm::from(ql.clone()))]),
                                ];
                                let mut qs: QuerySet<S::Pt> = QuerySet::new();
                                qs.insert(("lc_p".to_string(), (zl.clone(), z.clone())));
                                qs.insert(("lc_q".to_string(), (zl, z.clone())));
                                let mut evals: Evaluations<S::Pt, S::F> = Evaluations::new();
                                evals.insert(("lc_p".to_string(), z.clone()), sess.prover.polys[p].polynomial().eval_ref(&z));
                                evals.insert(("lc_q".to_string(), z.clone()), qf.polynomial().eval_ref(&z));
                                let mut sp = sess.verifier.sponge.fork();
                                let polys2 = [&sess.prover.polys[p], &qf];
                                let comms2 = [&sess.prover.comms[p], &cf];
                                let states2 = [&sess.prover.states[p], &sf];
                                match step(|| PcOf::<S>::open_combinations(ck, lcs.iter(), polys2, comms2, &qs, &mut sp, states2, Some(&mut rng))) {
                                    Outcome::Ok(proof) => match S::comm_with_surplus_shift(mine.commitment(), cf.commitment()) {
                                        Some(c) => { bad_claim = Some(Claim::Lc { lcs, qs, evals, proof }); Some(relabel::<S>(&mine, c, None)) }
                                        None => None,
                                    },
                                    o => { res.stats.probe(&format!("byzantine-prover-{}", o.kind())); None }
                                }
                            }
                            _ => None,
                        }
                    }
                }
                ("shifted-other-bound", Some(dp)) => {
                    let deg = scn.polys[p].degree;
                    let others: Vec<usize> = all_bounds.iter().copied().filter(|d| *d != dp && *d >= deg).collect();
                    if others.is_empty() { None } else {
                        let d2 = others[f.aux % others.len()];
                        let hid = match (fam, scn.polys[p].hiding) { (Family::Sonic, Some(h)) => Some(h.min(d2).max(1)), (_, h) => h };
                        let q = LabeledPolynomial::new(label.clone(), sess.prover.polys[p].polynomial().clone(), Some(d2), hid);
                        let ck = &sess.prover.ck;
                        match step(|| PcOf::<S>::commit(ck, [&q], Some(&mut rng))) {
                            Outcome::Ok((mut c, _)) if c.len() == 1 => {
                                let other = c.pop().unwrap();
                                if fam == Family::Sonic {
                                    Some(relabel::<S>(&mine, other.commitment().clone(), Some(dp)))
                                } else {
                                    S::comm_with_shifted_of(mine.commitment(), other.commitment()).map(|c| relabel::<S>(&mine, c, Some(dp)))
                                }
                            }
                            _ => None,
                        }
                    }
                }
                ("unbounded-gets-label", None) => {
                    // enforced bounds, and every other time any bound up to max_degree (enforced or not)
                    let pool: Vec<usize> = if f.param % 2 == 0 { all_bounds.clone() } else { (1..=cfg.max_degree).collect() };
                    if pool.is_empty() { None } else { Some(relabel::<S>(&mine, mine.commitment().clone(), Some(pool[(f.param as usize / 2) % pool.len()]))) }
                }
                _ => None,
            };
            let Some(faulted) = faulted else { res.stats.probe("fault-not-applicable"); continue };
            // Exemptions: presentations that are bit-for-bit what an honest committer produces for the
            // presented label, so that accepting them is no statement about degree bounds at all.
            let spec = &scn.polys[p];
            // (Marlin and IPA blind the degree-bound part with generators that do not depend on the
            // bound, so a hiding commitment to the zero polynomial is identically distributed under
            // every bound as well; Sonic's blinding generators are shifted with the bound.)
            let zero_nonhiding = matches!(spec.shape, Shape::Zero) && (spec.hiding.is_none() || fam != Family::Sonic);
            let presents_no_bound = faulted.degree_bound().is_none();
            let constant = spec.degree == 0;
            let sonic_zero_shift = fam == Family::Sonic
                && ((f.kind == "bound-label-dropped" && dprime == Some(cfg.max_degree)) || (f.kind == "unbounded-gets-label" && faulted.degree_bound() == Some(cfg.max_degree)));
            if zero_nonhiding && second.is_none() {
                // identity commitment under every bound
                res.stats.probe("exempt:zero-polynomial");
                continue;
            }
            if presents_no_bound && constant {
                // no bound is claimed and the (zero) witness of a constant needs no bound part
                res.stats.probe("exempt:constant-presented-unbounded");
                continue;
            }
            if sonic_zero_shift {
                // bound == max_degree: Sonic's shifted powers are the ordinary powers
                res.stats.probe("exempt:sonic-zero-shift");
                continue;
            }
            res.stats.fire(&f.kind);
            let list: Vec<LabeledCommitment<Comm<S>>> = sess.verifier.comms.iter().map(|c| if c.label() == label { faulted.clone() } else if second.as_ref().map_or(false, |s| s.label() == c.label()) { second.clone().unwrap() } else { c.clone() }).collect();
            let mut sp = sess.verifier.sponge.fork();
            let mut vr = SimRng::new(scn.seed, "verifier-scratch", 4000 + fi as u64);
            sess.stats.checks += 1;
            let delivered = bad_claim.as_ref().unwrap_or(&claim);
            let (d, why) = Sess::<S>::check_with(&sess.verifier.vk, &list, delivered, &mut sp, &mut vr, 0);
            log.ev(&format!("fault {} op{} poly {} (made under {:?}, presented {:?}) -> {}", f.kind, i, label, dprime, faulted.degree_bound(), d.name()));
            res.classes.insert(format!("{famn}|{shape}|{}|{}|{}", cfg_class(scn), f.kind, d.name()));
            if d.accepted() {
                res.violations.push(viol(scn, "bound-enforcement", &f.kind, op_kind(op), format!("commitment of {} made under bound {:?} accepted when presented as {:?} with fault {} ({}) {}", label, dprime, faulted.degree_bound(), f.kind, shape, why)));
            }
        }
        let (d, _) = sess.verify(&claim, i as u64);
        if !d.accepted() {
            break;
        }
    }

    // ---- prover-side admission
    for (fi, f) in scn.faults.iter().enumerate().filter(|(_, f)| PROVER_KINDS.contains(&f.kind.as_str())) {
        let mut rng = SimRng::new(scn.seed, "c04-admission", fi as u64);
        let base = PolySpec { label: "adm".into(), shape: Shape::Dense, degree: 0, degree_bound: None, hiding: None, coeff_id: 7000 + fi as u64 };
        let mk = |spec: &PolySpec| LabeledPolynomial::new(spec.label.clone(), S::P::build(cfg, spec, scn.seed), spec.degree_bound, spec.hiding);
        let ck = &sess.prover.ck;
        let verdict: Option<(String, bool, String)> = match f.kind.as_str() {
            "commit-degree-exceeds-bound" => {
                let c: Vec<usize> = all_bounds.iter().copied().filter(|b| *b + 1 <= sup).collect();
                if c.is_empty() { None } else {
                    let b = c[f.aux % c.len()];
                    let shape = match f.param % 3 { 0 => Shape::Dense, 1 => Shape::LowZeros(1 + (f.param as usize / 3) % (b + 1)), _ => Shape::Sparse(1 + (f.param as usize / 3) % 3) };
                    let p = mk(&PolySpec { degree: b + 1, degree_bound: Some(b), shape, ..base.clone() });
                    let o = step(|| PcOf::<S>::commit(ck, [&p], Some(&mut rng)));
                    Some((format!("commit(deg {} under bound {})", b + 1, b), o.is_ok(), o.describe()))
                }
            }
            "commit-bound-not-enforced" => {
                let c: Vec<usize> = (1..=cfg.supported_degree).filter(|d| !all_bounds.contains(d)).collect();
                if c.is_empty() || fam == Family::Ipa { None } else {
                    let b = c[f.aux % c.len()];
                    let p = mk(&PolySpec { degree: b.min(1), degree_bound: Some(b), ..base.clone() });
                    let o = step(|| PcOf::<S>::commit(ck, [&p], Some(&mut rng)));
                    Some((format!("commit(bound {} not among the enforced {:?})", b, all_bounds), o.is_ok(), o.describe()))
                }
            }
            "commit-no-bounds-in-key" => {
                if fam == Family::Ipa { None } else {
                    match Pp::<S>::deserialize_with_mode(&sess.pp_bytes[..], compress_of(&scn.env), ark_serialize::Validate::No).ok() {
                        None => None,
                        Some(pp) => {
                            let none_or_empty: Option<&[usize]> = if f.aux % 2 == 0 { None } else { Some(&[]) };
                            match step(|| PcOf::<S>::trim(&pp, cfg.supported_degree, cfg.supported_hiding, none_or_empty)) {
                                Outcome::Ok((ck2, _)) => {
                                    let b = 1 + f.aux % cfg.supported_degree;
                                    let p = mk(&PolySpec { degree: b.min(1), degree_bound: Some(b), ..base.clone() });
                                    let o = step(|| PcOf::<S>::commit(&ck2, [&p], Some(&mut rng)));
                                    Some((format!("commit(bound {} with keys trimmed for {:?})", b, none_or_empty), o.is_ok(), o.describe()))
                                }
                                _ => None,
                            }
                        }
                    }
                }
            }
            "commit-degree-exceeds-supported" => {
                let d = sup + 1 + f.aux % 3;
                let shape = match f.param % 3 { 0 => Shape::Dense, 1 => Shape::LowZeros(1 + (f.param as usize / 3) % d), _ => Shape::Sparse(1 + (f.param as usize / 3) % 3) };
                let p = mk(&PolySpec { degree: d, shape, ..base.clone() });
                let o = step(|| PcOf::<S>::commit(ck, [&p], Some(&mut rng)));
                Some((format!("commit(deg {} > supported {})", d, sup), o.is_ok(), o.describe()))
            }
            "commit-bound-above-supported" => {
                // d > supported_degree: keys trimmed for supported s < D with a bound s < b <= D (Marlin, Sonic),
                // or any b beyond the (rounded) supported degree (IPA)
                if fam == Family::Ipa {
                    let b = sup + 1 + f.aux % 3;
                    let p = mk(&PolySpec { degree: 0, degree_bound: Some(b), ..base.clone() });
                    let o = step(|| PcOf::<S>::commit(ck, [&p], Some(&mut rng)));
                    Some((format!("commit(bound {} > supported {})", b, sup), o.is_ok(), o.describe()))
                } else if cfg.max_degree < 2 { None } else {
                    match Pp::<S>::deserialize_with_mode(&sess.pp_bytes[..], compress_of(&scn.env), ark_serialize::Validate::No).ok() {
                        None => None,
                        Some(pp) => {
                            let s2 = 1 + f.aux % (cfg.max_degree - 1);          // 1 ..= D-1
                            let b = s2 + 1 + (f.param as usize) % (cfg.max_degree - s2); // s2+1 ..= D
                            match step(|| PcOf::<S>::trim(&pp, s2, 1, Some(&[b]))) {
                                Outcome::Ok((ck2, _)) => {
                                    let p = mk(&PolySpec { degree: 1.min(s2), degree_bound: Some(b), ..base.clone() });
                                    let o = step(|| PcOf::<S>::commit(&ck2, [&p], Some(&mut rng)));
                                    Some((format!("trim(supported {}, bounds [{}]) then commit(bound {})", s2, b, b), o.is_ok(), o.describe()))
                                }
                                o => Some((format!("trim(supported {}, bounds [{}])", s2, b), false, o.describe())),
                            }
                        }
                    }
                }
            }
            "open-degree-exceeds-bound" | "open-bound-not-enforced" => {
                // an honest (commitment, state) of a bounded polynomial, opened with a polynomial that violates the bound
                let bp: Vec<usize> = (0..scn.polys.len()).filter(|&q| scn.polys[q].degree_bound.is_some()).collect();
                if bp.is_empty() { None } else {
                    let q = bp[f.target % bp.len()];
                    let b = scn.polys[q].degree_bound.unwrap();
                    let spec = if f.kind == "open-degree-exceeds-bound" {
                        if b + 1 > sup { None } else { Some(PolySpec { label: scn.polys[q].label.clone(), degree: b + 1, degree_bound: Some(b), hiding: scn.polys[q].hiding, ..base.clone() }) }
                    } else {
                        let c: Vec<usize> = (1..=cfg.supported_degree).filter(|d| !all_bounds.contains(d)).collect();
                        if c.is_empty() || fam == Family::Ipa { None } else { Some(PolySpec { label: scn.polys[q].label.clone(), degree: 0, shape: Shape::Const, degree_bound: Some(c[f.aux % c.len()]), hiding: scn.polys[q].hiding, ..base.clone() }) }
                    };
                    match spec {
                        None => None,
                        Some(spec) => {
                            let p = mk(&spec);
                            let pr = &sess.prover;
                            let mut sp = pr.sponge.fork();
                            let z = &sess.points[0];
                            let lc = relabel::<S>(&pr.comms[q], pr.comms[q].commitment().clone(), spec.degree_bound);
                            let o = step(|| PcOf::<S>::open(&pr.ck, [&p], [&lc], z, &mut sp, [&pr.states[q]], Some(&mut rng)));
                            Some((format!("open(deg {} labelled bound {:?})", spec.degree, spec.degree_bound), o.is_ok(), o.describe()))
                        }
                    }
                }
            }
            _ => None,
        };
        let Some((what, answered, how)) = verdict else { res.stats.probe("fault-not-applicable"); continue };
        res.stats.fire(&f.kind);
        log.ev(&format!("request {} -> {}", what, how));
        res.classes.insert(format!("{famn}|{}|{}|{}", f.kind, cfg_class(scn), how.split('(').next().unwrap_or("")));
        if answered {
            res.violations.push(viol(scn, "admission", &f.kind, &f.kind, format!("request that violates the degree-bound rules answered instead of refused: {what} -> {how}")));
        }
    }
    let st = sess.stats.clone();
    res.stats.merge(&st);
    res
}
