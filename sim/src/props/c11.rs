//! C11 — prover and verifier transcripts stay in lock-step over histories of operations on one
//! sponge; proofs are bound to the transcript position they were made at (DESIGN.md §3.9).
use super::common::*;
use super::RunResult;
use crate::gen::{pick_scheme, Gen};
use crate::scenario::*;
use crate::schemes::*;
use crate::seams::*;
use crate::session::*;
use ark_crypto_primitives::sponge::CryptographicSponge;
use ark_ff::{One, Zero};
use ark_std::rand::Rng;

pub const KINDS: &[&str] = &["proof-moved", "sponge-absorb-dropped", "sponge-absorb-altered", "sponge-absorb-duplicated", "stale-snapshot"];

pub fn generate(run_seed: u64) -> Scenario {
    let mut g = Gen::new(run_seed);
    // the adapter-wrapped bespoke schemes (raw KZG10, MultilinearPC) take no transcript at all
    let scheme = pick_scheme(&mut g.r, &|f| !matches!(f, Family::Kzg10 | Family::Mlpc));
    let (cfg, polys) = g.workload(&scheme, 3);
    let points = g.points(3);
    let n_ops = g.r.gen_range(1..=6);
    let ops: Vec<Op> = (0..n_ops).map(|_| g.any_op(&polys, points.len(), 0.25, 0.5)).collect();
    let mut faults = vec![];
    let enabled: Vec<&str> = KINDS.iter().copied().filter(|_| g.r.gen_bool(0.6)).collect();
    for k in enabled {
        match k {
            "proof-moved" => {
                for j in 0..n_ops {
                    for i in 0..n_ops {
                        if i != j && g.r.gen_bool(0.5) {
                            // claim of op j checked at transcript position i
                            faults.push(Fault { kind: k.into(), op: j, target: i, aux: 0, param: 0 });
                        }
                    }
                }
            }
            "stale-snapshot" => {
                for j in 1..n_ops {
                    faults.push(Fault { kind: k.into(), op: j, target: g.r.gen_range(0..j), aux: 0, param: 0 });
                }
            }
            _ => faults.push(Fault { kind: k.into(), op: 0, target: g.r.gen_range(0..4), aux: 0, param: g.r.gen() }),
        }
    }
    let benign = g.r.gen_bool(0.5);
    let mut env = g.env(n_ops, benign);
    env.sponge_preabsorb = g.r.gen_range(0..4);
    let sched = g.sched();
    Scenario { property: "C11".into(), scheme, seed: run_seed, cfg, polys, points, ops, faults, sched, env }
}

/// Does the operation involve at least one non-constant polynomial / combination? (Constant ones are
/// exempt from the binding clause: their witnesses are the identity under every challenge.)
pub fn op_nontrivial<S: Scheme>(sess: &Sess<S>, op: &Op) -> bool {
    let scn = sess.scn;
    let r1 = S::P::point(&scn.cfg, scn.seed, 900_001);
    let r2 = S::P::point(&scn.cfg, scn.seed, 900_002);
    if S::P::point_len(&r1) == 0 {
        return false; // zero variables: every polynomial is a constant
    }
    let poly_nonconst = |p: usize| {
        let q = sess.prover.polys[p].polynomial();
        q.eval_ref(&r1) != q.eval_ref(&r2)
    };
    match op {
        Op::Open { polys, .. } => polys.iter().any(|&p| poly_nonconst(p)),
        Op::Batch { queries } => queries.iter().any(|&(p, _)| poly_nonconst(p)),
        Op::Lc { lcs, queries } => queries.iter().any(|&(l, _)| {
            let ev = |z: &S::Pt| {
                let mut t = S::F::zero();
                for (c, term) in &lcs[l].terms {
                    let c: S::F = coeff_of(c, scn.seed);
                    t += c * match term { None => S::F::one(), Some(i) => sess.prover.polys[*i].polynomial().eval_ref(z) };
                }
                t
            };
            ev(&r1) != ev(&r2)
        }),
    }
}

fn lockstep<S: Scheme>(sess: &Sess<S>) -> Result<(), String> {
    let p = &sess.prover.sponge;
    let v = &sess.verifier.sponge;
    if p.state_bytes() != v.state_bytes() {
        return Err(format!("sponge states differ: prover {} verifier {}", p.state_digest(), v.state_digest()));
    }
    if p.shape() != v.shape() {
        return Err(format!("sponge traces differ in shape ({} vs {} events)", p.trace_len(), v.trace_len()));
    }
    let a: Vec<S::F> = p.fork().squeeze_field_elements(2);
    let b: Vec<S::F> = v.fork().squeeze_field_elements(2);
    if a != b {
        return Err("next squeeze differs".into());
    }
    Ok(())
}

pub fn run<S: Scheme>(scn: &Scenario, log: &EventLog) -> RunResult {
    let mut res = RunResult::default();
    let fam = format!("{:?}", S::FAMILY);
    let Some(mut sess) = start_or_vacuous::<S>(scn, log, &mut res) else { return res };
    let mut claims: Vec<Claim<S>> = vec![];
    let mut snaps: Vec<TraceSponge<S::F>> = vec![]; // verifier pre-state of every position
    let mut complete = true;
    for (i, op) in scn.ops.iter().enumerate() {
        if do_restarts(&mut sess, i).is_err() {
            res.stats.probe("vacuous:restart");
            complete = false;
            break;
        }
        snaps.push(sess.verifier.sponge.fork());
        let claim = match sess.prove(op, i as u64) {
            Outcome::Ok(c) => c,
            o => {
                res.violations.push(viol(scn, "lock-step", "none", &format!("prove/{}", op_kind(op)), format!("honest prover failed at position {i} of the history: {}", o.describe())));
                complete = false;
                break;
            }
        };
        let claim = match claim.through_channel(&scn.env, 500 + i as u64) {
            Ok(c) => c,
            Err(e) => {
                res.violations.push(viol(scn, "lock-step", "benign-io", "channel", e));
                complete = false;
                break;
            }
        };
        let (d, why) = sess.verify(&claim, i as u64);
        res.classes.insert(format!("{fam}|h{}|{}|{}|honest|{}", scn.ops.len(), op_shape(op, scn), cfg_class(scn), d.name()));
        if !d.accepted() {
            res.violations.push(viol(scn, "lock-step", "none", &format!("verify/{}", op_kind(op)), format!("check {i} of a {}-operation history not accepted: {} {}", scn.ops.len(), d.name(), trunc(&why, 100))));
            complete = false;
            break;
        }
        if let Err(e) = lockstep(&sess) {
            res.violations.push(viol(scn, "lock-step", "none", &format!("sponge/{}", op_kind(op)), format!("after operation {i} ({}): {e}", op_shape(op, scn))));
            complete = false;
            break;
        }
        claims.push(claim);
    }
    // fault phase: claims verified against transcript states they were not made for
    for (fi, f) in scn.faults.iter().enumerate() {
        if f.op >= claims.len() {
            continue;
        }
        let op = &scn.ops[f.op];
        let nontrivial = op_nontrivial(&sess, op);
        let wrong: Option<TraceSponge<S::F>> = match f.kind.as_str() {
            "proof-moved" | "stale-snapshot" => {
                // (no "the two states must differ" precondition: at least one accepted operation lies
                // between two positions, and one that leaves the transcript where it was makes its
                // proof valid at every later position - which is what this fault then observes)
                if f.target < snaps.len() && f.target != f.op { Some(snaps[f.target].fork()) } else { None }
            }
            "sponge-absorb-dropped" | "sponge-absorb-altered" | "sponge-absorb-duplicated" => {
                if f.op != 0 { None } else {
                    let n = scn.env.sponge_preabsorb as usize;
                    let mut sp = TraceSponge::<S::F>::fresh();
                    let k = if n == 0 { 0 } else { f.target % n };
                    let mut changed = false;
                    for i in 0..n {
                        let item = mix(scn.seed, "preabsorb", i as u64).to_vec();
                        match f.kind.as_str() {
                            "sponge-absorb-dropped" if i == k => { changed = true; }
                            "sponge-absorb-altered" if i == k => { let mut x = item.clone(); x[0] ^= 1; sp.absorb(&x); changed = true; }
                            "sponge-absorb-duplicated" if i == k => { sp.absorb(&item); sp.absorb(&item); changed = true; }
                            _ => sp.absorb(&item),
                        }
                    }
                    if f.kind == "sponge-absorb-duplicated" && n == 0 {
                        sp.absorb(&mix(scn.seed, "preabsorb", 99).to_vec());
                        changed = true;
                    }
                    if changed { Some(sp) } else { None }
                }
            }
            _ => None,
        };
        let Some(mut sp) = wrong else { res.stats.probe("fault-not-applicable"); continue };
        res.stats.fire(&f.kind);
        let mut rng = SimRng::new(scn.seed, "verifier-scratch", 11_000 + fi as u64);
        sess.stats.checks += 1;
        let (d, why) = Sess::<S>::check_with(&sess.verifier.vk, &sess.verifier.comms, &claims[f.op], &mut sp, &mut rng, scn.env.verifier_perm.rotate_left(11));
        log.ev(&format!("fault {} claim{} at state {} nontrivial={} -> {}", f.kind, f.op, f.target, nontrivial, d.name()));
        res.classes.insert(format!("{fam}|{}|{}|{}|nt{}|{}", op_shape(op, scn), cfg_class(scn), f.kind, nontrivial as u8, d.name()));
        if !nontrivial {
            res.stats.probe("exempt:all-constant");
            continue;
        }
        // toy-size linear-code instances without the well-formedness challenge are bound to the
        // transcript only through a few index bits: a coincidence is legitimate there
        let weakest = op_labels(scn, op).iter().filter_map(|l| sess.verifier.comms.iter().find(|c| c.label() == l)).filter_map(|c| S::transcript_binding_bits(&sess.verifier.vk, c.commitment())).fold(f64::INFINITY, f64::min);
        if weakest < 64.0 {
            res.stats.probe("exempt:toy-size-index-binding");
            continue;
        }
        if d.accepted() {
            res.violations.push(viol(scn, "binding-to-transcript", &f.kind, op_kind(op), format!("proof of operation {} ({}) accepted against a different transcript state ({} {}) {}", f.op, op_shape(op, scn), f.kind, f.target, why)));
        }
    }
    if complete {
        res.stats.probe("history-completed");
        if let Err(e) = lockstep(&sess) {
            res.violations.push(viol(scn, "lock-step", "none", "sponge/end", e));
        }
    }
    let st = sess.stats.clone();
    res.stats.merge(&st);
    res
}

/// labels of the polynomials an operation touches
fn op_labels(scn: &Scenario, op: &Op) -> Vec<String> {
    let mut idx: Vec<usize> = match op {
        Op::Open { polys, .. } => polys.clone(),
        Op::Batch { queries } => queries.iter().map(|q| q.0).collect(),
        Op::Lc { lcs, queries } => queries.iter().flat_map(|q| lcs[q.0].terms.iter().filter_map(|t| t.1)).collect(),
    };
    idx.sort();
    idx.dedup();
    idx.into_iter().map(|i| scn.polys[i].label.clone()).collect()
}
