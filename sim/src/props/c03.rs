//! C03 — no crafted or malformed proof proves a false claim (DESIGN.md §3.3).
//! The claim is made false first; the accompanying proof then comes from the attack catalogue:
//! single-component replacement, shape mutations, replays, and a byzantine prover that runs the
//! library on inputs that do not belong to the commitment.
use super::c02::value_at;
use super::common::*;
use super::RunResult;
use crate::gen::{n_positions, pick_scheme, point_of, Gen};
use crate::scenario::*;
use crate::schemes::*;
use crate::seams::*;
use crate::session::*;

use ark_poly_commit::{LabeledPolynomial, PolynomialCommitment};
use ark_std::rand::Rng;

pub const KINDS: &[&str] = &[
    "proof-variant",          // every single-component replacement / shape mutation of one proof
    "prover-on-q",            // library prover run on (q, state_q) with q(z) = claimed value, commitment(p) presented
    "state-of-other-poly",    // library prover run on p with another polynomial's commitment state
    "proof-for-other-point",  // honest proof for (p, z') replayed for (p, z)
    "proof-for-other-commitment", // honest proof for another polynomial replayed for this commitment
    "proof-list-shape",       // batch proof list truncated / extended / permuted / duplicated under a false claim
    "forged-opening",         // targeted constructions for the linear-code schemes
];

pub fn generate(run_seed: u64) -> Scenario {
    let mut g = Gen::new(run_seed);
    let scheme = pick_scheme(&mut g.r, &|_| true);
    let (cfg, polys) = g.workload(&scheme, 3);
    let points = g.points(3);
    let n_ops = g.r.gen_range(1..=2);
    let ops: Vec<Op> = (0..n_ops).map(|_| g.open_or_batch(polys.len(), points.len(), 0.5)).collect();
    let enabled: Vec<&str> = KINDS.iter().copied().filter(|_| g.r.gen_bool(0.55)).collect();
    let mut faults = vec![];
    for (oi, op) in ops.iter().enumerate() {
        let n = n_positions(op);
        for k in &enabled {
            let reps = match *k { "proof-variant" => 2, "proof-list-shape" => 3, _ => 1 };
            for _ in 0..reps {
                faults.push(Fault { kind: k.to_string(), op: oi, target: g.r.gen_range(0..n), aux: g.r.gen_range(0..64), param: g.r.gen() });
            }
        }
    }
    let benign = g.r.gen_bool(0.3);
    let env = g.env(n_ops, benign);
    let sched = g.sched();
    Scenario { property: "C03".into(), scheme, seed: run_seed, cfg, polys, points, ops, faults, sched, env }
}

fn delta<F: ark_ff::PrimeField>(seed: u64, k: u64) -> F {
    loop {
        let d = F::rand(&mut stream(seed, "delta", k));
        if !d.is_zero() {
            return d;
        }
    }
}

/// polynomial index of position `pos`
fn poly_of(op: &Op, pos: usize) -> usize {
    match op {
        Op::Open { polys, .. } => polys[pos],
        Op::Batch { queries } => queries[pos].0,
        Op::Lc { .. } => 0,
    }
}

pub fn run<S: Scheme>(scn: &Scenario, log: &EventLog) -> RunResult {
    let mut res = RunResult::default();
    let fam = format!("{:?}", S::FAMILY);
    let Some(mut sess) = start_or_vacuous::<S>(scn, log, &mut res) else { return res };
    for (i, op) in scn.ops.iter().enumerate() {
        if matches!(op, Op::Lc { .. }) {
            continue;
        }
        if do_restarts(&mut sess, i).is_err() {
            break;
        }
        let pre_prover = sess.prover.sponge.fork();
        let Some(claim) = honest_claim(&mut sess, op, i, &mut res) else { break };
        let shape = op_shape(op, scn);
        let kind = op_kind(op);
        let points = sess.points.clone();
        let n = n_positions(op);
        for (fi, f) in scn.faults.iter().enumerate().filter(|(_, f)| f.op == i) {
            let pos = f.target % n;
            let victim = poly_of(op, pos);
            let z = point_of(op, pos);
            // candidate (name, claim) pairs: every one carries at least one false value
            let mut cands: Vec<(String, Claim<S>)> = vec![];
            let mut rng = SimRng::new(scn.seed, "byzantine", fi as u64);
            match f.kind.as_str() {
                "proof-variant" => {
                    let mut bad = claim.clone();
                    if let Some(v) = value_at::<S>(&mut bad, op, scn, &points, pos) {
                        *v += delta::<S::F>(scn.seed, f.param);
                    }
                    match &bad {
                        Claim::Open { proof, .. } => {
                            for (name, p2) in S::proof_variants(proof, mix64(scn.seed, "variants", f.param)) {
                                let mut c = bad.clone();
                                if let Claim::Open { proof, .. } = &mut c { *proof = p2; }
                                cands.push((name, c));
                            }
                        }
                        Claim::Batch { proof, .. } => {
                            let list: Vec<Proof<S>> = proof.clone().into();
                            if !list.is_empty() {
                                let g = f.aux % list.len();
                                for (name, p2) in S::proof_variants(&list[g], mix64(scn.seed, "variants", f.param)) {
                                    let mut l2 = list.clone();
                                    l2[g] = p2;
                                    let mut c = bad.clone();
                                    if let Claim::Batch { proof, .. } = &mut c { *proof = l2.into(); }
                                    cands.push((name, c));
                                }
                            }
                        }
                        _ => {}
                    }
                }
                "proof-list-shape" => {
                    if let Claim::Batch { proof, .. } = &claim {
                        let list: Vec<Proof<S>> = proof.clone().into();
                        let g = list.len();
                        let mut bad = claim.clone();
                        if let Some(v) = value_at::<S>(&mut bad, op, scn, &points, pos) {
                            *v += delta::<S::F>(scn.seed, f.param);
                        }
                        let mut shapes: Vec<(String, Vec<Proof<S>>)> = vec![];
                        for keep in 0..g { shapes.push((format!("truncated-to-{}", keep.min(2)), list[..keep].to_vec())); }
                        if g > 0 { let mut l = list.clone(); l.push(list[f.aux % g].clone()); shapes.push(("extended".into(), l)); }
                        if g > 1 { let mut l = list.clone(); l.swap(0, g - 1); shapes.push(("permuted".into(), l)); let mut l = list.clone(); l[0] = list[g - 1].clone(); shapes.push(("duplicated".into(), l)); }
                        for (name, l) in shapes {
                            let mut c = bad.clone();
                            if let Claim::Batch { proof, .. } = &mut c { *proof = l.into(); }
                            cands.push((name, c));
                        }
                    }
                }
                "prover-on-q" | "state-of-other-poly" => {
                    let d = delta::<S::F>(scn.seed, f.param);
                    let mut polys2 = sess.prover.polys.clone();
                    let mut states2 = sess.prover.states.clone();
                    let mut ok = true;
                    let mut d_eff = d;
                    if f.kind == "prover-on-q" {
                        // q = p + d: q(z) = p(z) + d is the claimed (false) value everywhere p is queried
                        let q = LabeledPolynomial::new(scn.polys[victim].label.clone(), sess.prover.polys[victim].polynomial().add_const(d), scn.polys[victim].degree_bound, scn.polys[victim].hiding);
                        let ck = &sess.prover.ck;
                        match step(|| PcOf::<S>::commit(ck, [&q], Some(&mut rng))) {
                            Outcome::Ok((_, mut st)) if st.len() == 1 => {
                                // half of the time the prover keeps the state that belongs to the presented commitment
                                if f.aux % 2 == 0 { states2[victim] = st.pop().unwrap(); }
                                polys2[victim] = q;
                            }
                            _ => ok = false,
                        }
                    } else {
                        // honest polynomial, foreign commitment state; the claim is falsified separately
                        let others: Vec<usize> = (0..scn.polys.len()).filter(|&o| o != victim).collect();
                        if others.is_empty() { ok = false; } else {
                            states2[victim] = sess.prover.states[others[f.aux % others.len()]].clone();
                            d_eff = d;
                        }
                    }
                    if ok {
                        let (qs, mut evals) = sess.statement(op);
                        // the statement the byzantine prover sends: victim's values shifted by d at every queried point
                        for ((l, _), v) in evals.iter_mut() {
                            if *l == scn.polys[victim].label { *v += d_eff; }
                        }
                        let mut sp = pre_prover.fork();
                        match Sess::<S>::prove_on(scn, &points, &sess.prover.ck, &polys2, &sess.prover.comms, &states2, &sess.prover.order, op, qs, evals, &mut sp, Some(&mut rng)) {
                            Outcome::Ok(mut c) => {
                                if let Claim::Open { values, labels, .. } = &mut c {
                                    // prove_on computes Open values from the listed polynomials (q already); for the
                                    // foreign-state case shift the victim's value
                                    if f.kind == "state-of-other-poly" {
                                        for (l, v) in labels.iter().zip(values.iter_mut()) {
                                            if *l == scn.polys[victim].label { *v += d_eff; }
                                        }
                                    }
                                }
                                cands.push((f.kind.clone(), c));
                            }
                            o => res.stats.probe(&format!("byzantine-prover-{}", o.kind())),
                        }
                    }
                }
                "proof-for-other-point" => {
                    // the same operation proved honestly at other point values, presented for the original points
                    if points.len() > 0 {
                        let mut pts2 = points.clone();
                        for (k, p) in pts2.iter_mut().enumerate() {
                            *p = S::P::shift_point(p, f.aux + k, delta::<S::F>(scn.seed, f.param ^ k as u64));
                        }
                        let mut sess_stmt_vals = vec![];
                        let (qs_true, evals_true) = sess.statement(op);
                        // statement at the original points with the values of the moved points
                        let mut evals2 = evals_true.clone();
                        let mut falsified = false;
                        if let Op::Batch { queries } = op {
                            for &(p, zi) in queries {
                                let v2 = sess.prover.polys[p].polynomial().eval_ref(&pts2[zi]);
                                evals2.insert((scn.polys[p].label.clone(), points[zi].clone()), v2);
                            }
                            // two point labels may share one point value (one map entry): decide on the
                            // statement as it finally stands whether it contains a false claim
                            for &(p, zi) in queries {
                                if evals2.get(&(scn.polys[p].label.clone(), points[zi].clone())) != Some(&sess.truth(p, zi)) { falsified = true; }
                            }
                        }
                        // prover works at the moved points
                        let mut qs2 = ark_poly_commit::QuerySet::new();
                        let mut ev_moved = ark_poly_commit::Evaluations::new();
                        if let Op::Batch { queries } = op {
                            for &(p, zi) in queries {
                                qs2.insert((scn.polys[p].label.clone(), (scn.points[zi].label.clone(), pts2[zi].clone())));
                                ev_moved.insert((scn.polys[p].label.clone(), pts2[zi].clone()), sess.prover.polys[p].polynomial().eval_ref(&pts2[zi]));
                            }
                        }
                        let mut sp = pre_prover.fork();
                        match Sess::<S>::prove_on(scn, &pts2, &sess.prover.ck, &sess.prover.polys, &sess.prover.comms, &sess.prover.states, &sess.prover.order, op, qs2, ev_moved, &mut sp, Some(&mut rng)) {
                            Outcome::Ok(c) => {
                                let c2 = match (c, op) {
                                    (Claim::Open { labels, values, proof, .. }, Op::Open { polys, point }) => {
                                        for (&p, v) in polys.iter().zip(values.iter()) {
                                            if sess.truth(p, *point) != *v { falsified = true; }
                                        }
                                        sess_stmt_vals.push(());
                                        Some(Claim::Open { labels, point: points[*point].clone(), values, proof })
                                    }
                                    (Claim::Batch { proof, .. }, Op::Batch { .. }) => Some(Claim::Batch { qs: qs_true, evals: evals2, proof }),
                                    _ => None,
                                };
                                if let (Some(c2), true) = (c2, falsified) { cands.push((f.kind.clone(), c2)); }
                            }
                            o => res.stats.probe(&format!("byzantine-prover-{}", o.kind())),
                        }
                    }
                }
                "proof-for-other-commitment" => {
                    // honest proof for polynomial b presented for the commitment of the victim a, with b's values
                    let others: Vec<usize> = (0..scn.polys.len()).filter(|&o| o != victim).collect();
                    if let (Op::Open { polys, point }, false) = (op, others.is_empty()) {
                        let b = others[f.aux % others.len()];
                        let mut idx2 = polys.clone();
                        for x in idx2.iter_mut() { if *x == victim { *x = b; } }
                        let mut dup = idx2.clone(); dup.sort(); dup.dedup();
                        if dup.len() == idx2.len() && sess.truth(b, *point) != sess.truth(victim, *point) {
                            let op2 = Op::Open { polys: idx2, point: *point };
                            let mut sp = pre_prover.fork();
                            let (qs, ev) = sess.statement(&op2);
                            if let Outcome::Ok(Claim::Open { values, proof, .. }) = Sess::<S>::prove_on(scn, &points, &sess.prover.ck, &sess.prover.polys, &sess.prover.comms, &sess.prover.states, &sess.prover.order, &op2, qs, ev, &mut sp, Some(&mut rng)) {
                                // presented under the original labels (so the verifier uses the victim's commitment)
                                let labels = polys.iter().map(|&p| scn.polys[p].label.clone()).collect();
                                cands.push((f.kind.clone(), Claim::Open { labels, point: points[*point].clone(), values, proof }));
                            }
                        }
                    }
                }
                "forged-opening" => {
                    // targeted constructions live with the scheme (linear codes): see lincode.rs
                    let pre_verifier = sess.verifier.sponge.fork();
                    for (name, c) in S::forged_claims(scn, &sess, op, &claim, pos, &pre_verifier, f) {
                        cands.push((name, c));
                    }
                }
                _ => {}
            }
            if cands.is_empty() {
                res.stats.probe("fault-not-applicable");
                continue;
            }
            for (name, c) in cands {
                res.stats.fire(&f.kind);
                let (d, why) = sess.verify_scratch(&c, 13_000 + fi as u64);
                log.ev(&format!("fault {}:{} op{} pos={} -> {}", f.kind, name, i, pos, d.name()));
                res.classes.insert(format!("{fam}|{shape}|{}|{}:{}|{}", cfg_class(scn), f.kind, name, d.name()));
                if d.accepted() {
                    res.violations.push(viol(scn, "safety", &f.kind, &format!("{kind}/{name}"), format!("false claim accepted with a crafted proof: {}:{} at op {} ({}) position {} {}", f.kind, name, i, shape, pos, why)));
                }
            }
        }
        // how often is a mangled proof accepted for the *true* statement? (reported, never a violation)
        if let Claim::Open { proof, .. } = &claim {
            for (name, p2) in S::proof_variants(proof, mix64(scn.seed, "variants-true", i as u64)).into_iter().take(6) {
                let mut c = claim.clone();
                if let Claim::Open { proof, .. } = &mut c { *proof = p2; }
                let (d, _) = sess.verify_scratch(&c, 14_000 + i as u64);
                res.stats.probe(if d.accepted() { "true-claim-mangled-proof-accepted" } else { "true-claim-mangled-proof-rejected" });
                if d.accepted() {
                    res.classes.insert(format!("{fam}|{shape}|true-claim-mangled-accepted|{name}"));
                    if std::env::var_os("PCSIM_DEBUG_MANGLED").is_some() {
                        eprintln!("MANGLED-ACCEPTED {fam} {name} {}", scn.polys.iter().map(|p| format!("{:?}/h{:?}/b{:?}", p.shape, p.hiding, p.degree_bound)).collect::<Vec<_>>().join(","));
                    }
                }
            }
        }
        let (d, _) = sess.verify(&claim, i as u64);
        if !d.accepted() {
            break;
        }
    }
    let st = sess.stats.clone();
    res.stats.merge(&st);
    res
}
