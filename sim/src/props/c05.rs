//! C05 — batch verification == AND of per-point verifications (DESIGN.md §3.5).
//! Two verifier replicas get the same delivered messages; replica B calls the scheme's batch
//! verifier (under several verifier-RNG streams), replica I the per-point `check` calls.
use super::c02::value_at;
use super::common::*;
use super::RunResult;
use crate::gen::{n_positions, pick_scheme, point_of, Gen};
use crate::scenario::*;
use crate::schemes::*;
use crate::seams::*;
use crate::session::*;
use ark_ff::{Field, UniformRand, Zero};
use ark_poly_commit::{Evaluations, LabeledCommitment, PolynomialCommitment, QuerySet};
use ark_serialize::CanonicalDeserialize;
use ark_std::rand::Rng;
use std::collections::{BTreeMap, BTreeSet};

pub const KINDS: &[&str] = &["false-subset", "swap-in-group", "cancel-in-group", "cancel-across-groups", "proofs-permuted", "proofs-truncated", "proofs-extended", "proofs-duplicated"];
pub const RNG_STREAMS: u64 = 4;

pub fn generate(run_seed: u64) -> Scenario {
    let mut g = Gen::new(run_seed);
    let scheme = pick_scheme(&mut g.r, &|_| true);
    let (cfg, mut polys) = g.workload(&scheme, 4);
    if polys.len() < 2 && g.r.gen_bool(0.8) {
        // the quantifier wants m >= 2 polynomials per label: clone the spec under another label
        let mut p = polys[0].clone();
        p.label = "p9".into();
        p.coeff_id = 9;
        polys.push(p);
    }
    let mut points = g.points(4);
    if points.len() < 2 {
        points.push(PointSpec { label: "w".into(), value_id: if g.r.gen_bool(0.3) { points[0].value_id } else { 7 } });
    }
    let mut queries = vec![];
    for p in 0..polys.len() {
        for z in 0..points.len() {
            if g.r.gen_bool(0.8) {
                queries.push((p, z));
            }
        }
    }
    if queries.len() < 2 {
        queries = vec![(0, 0), (polys.len() - 1, points.len() - 1)];
    }
    let op = Op::Batch { queries: queries.clone() };
    let n = n_positions(&op);
    let n_groups = queries.iter().map(|q| q.1).collect::<BTreeSet<_>>().len();
    let enabled: Vec<&str> = KINDS.iter().copied().filter(|_| g.r.gen_bool(0.5)).collect();
    let mut faults = vec![];
    for k in enabled {
        match k {
            "false-subset" => {
                for _ in 0..3 {
                    faults.push(Fault { kind: k.into(), op: 0, target: g.r.gen_range(1..(1usize << n.min(12))), aux: 0, param: g.r.gen() });
                }
            }
            "cancel-in-group" => {
                for a in 0..n {
                    for b in (a + 1)..n {
                        if point_of(&op, a) == point_of(&op, b) && g.r.gen_bool(0.4) {
                            faults.push(Fault { kind: k.into(), op: 0, target: a, aux: b, param: g.r.gen() });
                        }
                    }
                }
            }
            "swap-in-group" => {
                for a in 0..n {
                    for b in (a + 1)..n {
                        if point_of(&op, a) == point_of(&op, b) && g.r.gen_bool(0.4) {
                            faults.push(Fault { kind: k.into(), op: 0, target: a, aux: b, param: g.r.gen() });
                        }
                    }
                }
            }
            "cancel-across-groups" => {
                for a in 0..n {
                    for b in (a + 1)..n {
                        if point_of(&op, a) != point_of(&op, b) && g.r.gen_bool(0.4) {
                            faults.push(Fault { kind: k.into(), op: 0, target: a, aux: b, param: g.r.gen() });
                        }
                    }
                }
            }
            "proofs-permuted" | "proofs-duplicated" => {
                if n_groups >= 2 {
                    let a = g.r.gen_range(0..n_groups);
                    let b = (a + 1 + g.r.gen_range(0..n_groups - 1)) % n_groups;
                    // aux: 0 = all claims true, otherwise falsify position aux-1
                    faults.push(Fault { kind: k.into(), op: 0, target: a * 16 + b, aux: if g.r.gen_bool(0.5) { 0 } else { 1 + g.r.gen_range(0..n) }, param: g.r.gen() });
                }
            }
            "proofs-truncated" => {
                for keep in 0..n_groups {
                    faults.push(Fault { kind: k.into(), op: 0, target: keep, aux: if g.r.gen_bool(0.3) { 0 } else { 1 + g.r.gen_range(0..n) }, param: g.r.gen() });
                }
            }
            "proofs-extended" => {
                faults.push(Fault { kind: k.into(), op: 0, target: g.r.gen_range(0..n_groups), aux: if g.r.gen_bool(0.5) { 0 } else { 1 + g.r.gen_range(0..n) }, param: g.r.gen() });
            }
            _ => {}
        }
    }
    let benign = g.r.gen_bool(0.3);
    let env = g.env(1, benign);
    let sched = g.sched();
    Scenario { property: "C05".into(), scheme, seed: run_seed, cfg, polys, points, ops: vec![op], faults, sched, env }
}

type Groups<'a, Pt> = BTreeMap<&'a String, (&'a Pt, BTreeSet<&'a String>)>;
pub fn group<'a, Pt: Clone + Ord>(qs: &'a QuerySet<Pt>) -> Groups<'a, Pt> {
    let mut m: Groups<'a, Pt> = BTreeMap::new();
    for (label, (point_label, point)) in qs.iter() {
        m.entry(point_label).or_insert((point, BTreeSet::new())).1.insert(label);
    }
    m
}

/// Replica I: the per-point-label `check` calls in BTreeMap order on one sponge, ANDed. A missing or
/// surplus proof, commitment or evaluation makes the AND false by definition.
pub fn individual_and<S: Scheme>(
    vk: &Vk<S>,
    comms: &[LabeledCommitment<Comm<S>>],
    qs: &QuerySet<S::Pt>,
    evals: &Evaluations<S::Pt, S::F>,
    proof: &BatchProof<S>,
    sponge: &mut TraceSponge<S::F>,
    rng: &mut SimRng,
) -> (bool, String) {
    if let Some(r) = S::flat_individual_and(vk, comms, qs, evals, proof) {
        return r;
    }
    let groups = group(qs);
    let proofs: Vec<Proof<S>> = proof.clone().into();
    if proofs.len() != groups.len() {
        return (false, format!("{} proofs for {} point labels", proofs.len(), groups.len()));
    }
    let mut all = true;
    let mut why = String::new();
    for ((_, (point, labels)), pr) in groups.into_iter().zip(proofs.iter()) {
        let mut cs = vec![];
        let mut vs = vec![];
        for l in labels {
            match comms.iter().find(|c| c.label() == l) {
                Some(c) => cs.push(c),
                None => return (false, format!("no commitment {l}")),
            }
            match evals.get(&(l.clone(), point.clone())) {
                Some(v) => vs.push(*v),
                None => return (false, format!("no evaluation {l}")),
            }
        }
        let (d, w) = decide(|| PcOf::<S>::check(vk, cs, point, vs, pr, sponge, Some(rng)));
        if !d.accepted() {
            all = false;
            why = format!("{} {}", d.name(), trunc(&w, 60));
        }
    }
    (all, why)
}

/// opening challenge xi of (group, polynomial) read off the honest verifier's squeeze trace;
/// only for unbounded polynomials of the algebraically batched schemes
fn challenge_of<S: Scheme>(fam: Family, sq: &[Vec<u8>], qs: &QuerySet<S::Pt>, comms: &[LabeledCommitment<Comm<S>>], want_group: &String, want_label: &String) -> Option<S::F> {
    let groups = group(qs);
    let mut base = 0usize;
    for (gl, (_, labels)) in groups.iter() {
        let k = labels.len();
        let mut c = base;
        for (i, l) in labels.iter().enumerate() {
            let bounded = comms.iter().find(|c| c.label() == *l).map_or(false, |c| c.degree_bound().is_some());
            let idx = match fam {
                Family::Marlin | Family::Pst13 => c,
                Family::Sonic => base + i,
                Family::Ipa => base + 2 * i,
                _ => return None,
            };
            if *gl == want_group && *l == want_label {
                if bounded && fam != Family::Pst13 {
                    return None;
                }
                return sq.get(idx).and_then(|b| S::F::deserialize_compressed(&b[..]).ok());
            }
            c += 1 + (bounded && fam == Family::Marlin) as usize;
        }
        base = match fam {
            Family::Marlin | Family::Pst13 => c,
            Family::Sonic => base + k + 1,
            Family::Ipa => base + 2 * k + 1,
            _ => return None,
        };
    }
    None
}

pub fn run<S: Scheme>(scn: &Scenario, log: &EventLog) -> RunResult {
    let mut res = RunResult::default();
    let fam = format!("{:?}", S::FAMILY);
    let Some(mut sess) = start_or_vacuous::<S>(scn, log, &mut res) else { return res };
    let op = &scn.ops[0];
    let Op::Batch { queries } = op else { res.harness = Some("C05 scenario without a batch op".into()); return res };
    let Some(claim) = honest_claim_unverified(&mut sess, op, 0, &mut res) else { return res };
    let shape = op_shape(op, scn);
    let points = sess.points.clone();
    let lc_perm = 0;

    // honest run of replica B to read the opening challenges off its trace
    let mut public_factors: Vec<S::F> = vec![];
    let honest_sq: Vec<Vec<u8>> = {
        let mut sp = sess.verifier.sponge.fork();
        sp.squeezed_fe.borrow_mut().clear();
        let mut rng = SimRng::new(scn.seed, "verifier-B", 0);
        let _ = Sess::<S>::check_with(&sess.verifier.vk, &sess.verifier.comms, &claim, &mut sp, &mut rng, lc_perm);
        let v = sp.squeezed_fe.borrow().clone();
        // anything the verifier squeezed from copies of the public sponge is public as well
        public_factors = sp.clone_sq.borrow().iter().filter_map(|b| S::F::deserialize_compressed(&b[..]).ok()).filter(|x| !x.is_zero()).take(8).collect();
        v
    };

    // the fault-free transcript is itself a case: all-true batch accepted by both replicas
    let mut cases: Vec<(Fault, Claim<S>, bool)> = vec![(Fault { kind: "none".into(), ..Default::default() }, claim.clone(), false)];
    for f in scn.faults.iter() {
        let mut extra_cases: Vec<(Fault, Claim<S>, bool)> = vec![];
        let mut bad = claim.clone();
        let n = n_positions(op);
        let mut any_false = false;
        let falsify = |bad: &mut Claim<S>, pos: usize, d: S::F| -> bool {
            match value_at::<S>(bad, op, scn, &points, pos) {
                Some(v) => { *v += d; true }
                None => false,
            }
        };
        let delta = |i: u64| -> S::F { loop { let d = S::F::rand(&mut stream(scn.seed, "delta", f.param ^ i)); if !d.is_zero() { return d; } } };
        let ok = match f.kind.as_str() {
            "false-subset" => {
                let mut hit = false;
                for pos in 0..n.min(12) {
                    if (f.target >> pos) & 1 == 1 { hit |= falsify(&mut bad, pos, delta(pos as u64)); }
                }
                any_false = hit;
                hit
            }
            "cancel-in-group" => {
                if f.target >= n || f.aux >= n || f.target == f.aux || point_of(op, f.target) != point_of(op, f.aux) { false } else {
                    let d = delta(0);
                    any_false = true;
                    falsify(&mut bad, f.target, d) && falsify(&mut bad, f.aux, -d)
                }
            }
            "swap-in-group" => {
                // the claimed values of two polynomials at one point label change places
                if f.target >= n || f.aux >= n || f.target == f.aux || point_of(op, f.target) != point_of(op, f.aux) { false } else {
                    let va = value_at::<S>(&mut bad, op, scn, &points, f.target).map(|v| *v);
                    let vb = value_at::<S>(&mut bad, op, scn, &points, f.aux).map(|v| *v);
                    match (va, vb) {
                        (Some(va), Some(vb)) if va != vb => { any_false = true; falsify(&mut bad, f.target, vb - va) && falsify(&mut bad, f.aux, va - vb) }
                        _ => false,
                    }
                }
            }
            "cancel-across-groups" => {
                // two labels may share one point value: then (poly, point) can be one map entry, not two
                let same_key = f.target < n && f.aux < n && queries[f.target].0 == queries[f.aux].0 && points[queries[f.target].1] == points[queries[f.aux].1];
                if f.target >= n || f.aux >= n || point_of(op, f.target) == point_of(op, f.aux) || same_key { false } else {
                    let Claim::Batch { qs, .. } = &claim else { unreachable!() };
                    let (pa, za) = queries[f.target];
                    let (pb, zb) = queries[f.aux];
                    let xa = challenge_of::<S>(S::FAMILY, &honest_sq, qs, &sess.verifier.comms, &scn.points[za].label, &scn.polys[pa].label);
                    let xb = challenge_of::<S>(S::FAMILY, &honest_sq, qs, &sess.verifier.comms, &scn.points[zb].label, &scn.polys[pb].label);
                    match (xa, xb) {
                        (Some(xa), Some(xb)) if !xa.is_zero() && !xb.is_zero() && scn.points[za].label != scn.points[zb].label => {
                            // E_a = +e, E_b = -e: every group's weighted error is non-zero, their sum is zero
                            let e = delta(1);
                            any_false = true;
                            res.stats.probe("cancel-across:challenge-aware");
                            // the same with every public factor on either side (batching coefficients
                            // derived from public transcript data instead of the verifier's coins)
                            let mut fs = vec![S::F::from(1u64)];
                            fs.extend(public_factors.iter().copied());
                            for (ia, fa) in fs.iter().enumerate() {
                                for (ib, fb) in fs.iter().enumerate() {
                                    if ia == 0 && ib == 0 { continue; }
                                    let mut b2 = claim.clone();
                                    if falsify(&mut b2, f.target, e * (xa * fa).inverse().unwrap()) && falsify(&mut b2, f.aux, -e * (xb * fb).inverse().unwrap()) {
                                        res.stats.probe("cancel-across:public-factor");
                                        extra_cases.push((f.clone(), b2, true));
                                    }
                                }
                            }
                            falsify(&mut bad, f.target, e * xa.inverse().unwrap()) && falsify(&mut bad, f.aux, -e * xb.inverse().unwrap())
                        }
                        _ => {
                            // schemes without algebraic batching (or bounded polynomials): plain +d / -d
                            let d = delta(2);
                            any_false = true;
                            falsify(&mut bad, f.target, d) && falsify(&mut bad, f.aux, -d)
                        }
                    }
                }
            }
            "proofs-permuted" | "proofs-duplicated" | "proofs-truncated" | "proofs-extended" => {
                let Claim::Batch { proof, .. } = &mut bad else { unreachable!() };
                let mut v: Vec<Proof<S>> = proof.clone().into();
                let g = v.len();
                let done = match f.kind.as_str() {
                    "proofs-permuted" => { let (a, b) = (f.target / 16, f.target % 16); if a < g && b < g && a != b { v.swap(a, b); true } else { false } }
                    "proofs-duplicated" => { let (a, b) = (f.target / 16, f.target % 16); if a < g && b < g && a != b { v[a] = v[b].clone(); true } else { false } }
                    "proofs-truncated" => { if f.target < g { v.truncate(f.target); true } else { false } }
                    _ => { if f.target < g { let x = v[f.target].clone(); v.push(x); true } else { false } }
                };
                *proof = v.into();
                if done && f.aux > 0 && f.aux - 1 < n {
                    any_false = falsify(&mut bad, f.aux - 1, delta(3));
                }
                done
            }
            _ => false,
        };
        if !ok {
            res.stats.probe("fault-not-applicable");
            continue;
        }
        res.stats.fire(&f.kind);
        cases.push((f.clone(), bad, any_false));
        cases.append(&mut extra_cases);
    }

    for (ci, (f, c, any_false)) in cases.iter().enumerate() {
        let Claim::Batch { qs, evals, proof } = c else { unreachable!() };
        // replica I
        let mut sp_i = sess.verifier.sponge.fork();
        let mut rng_i = SimRng::new(scn.seed, "verifier-I", ci as u64);
        let (acc_i, why_i) = individual_and::<S>(&sess.verifier.vk, &sess.verifier.comms, qs, evals, proof, &mut sp_i, &mut rng_i);
        // replica B under several verifier-RNG streams
        let mut decisions = vec![];
        for s in 0..RNG_STREAMS {
            let mut sp = sess.verifier.sponge.fork();
            let mut rng = SimRng::new(scn.seed, "verifier-B", 100 * ci as u64 + s);
            let (d, why) = Sess::<S>::check_with(&sess.verifier.vk, &sess.verifier.comms, c, &mut sp, &mut rng, lc_perm);
            sess.stats.checks += 1;
            decisions.push((d, why));
        }
        res.stats.fire("verifier-rng-reseeded");
        let acc_b: Vec<bool> = decisions.iter().map(|d| d.0.accepted()).collect();
        log.ev(&format!("case {} fault={} target={} aux={} I={} B={:?}", ci, f.kind, f.target, f.aux, acc_i, decisions.iter().map(|d| d.0.name()).collect::<Vec<_>>()));
        res.classes.insert(format!("{fam}|{shape}|{}|{}|I{}B{}", cfg_class(scn), f.kind, acc_i as u8, acc_b[0] as u8));
        if acc_b.iter().any(|b| *b != acc_b[0]) {
            res.violations.push(viol(scn, "verifier-rng", &f.kind, "batch", format!("batch decision depends on the verifier's randomness: {:?} (fault {} target {} aux {})", acc_b, f.kind, f.target, f.aux)));
        } else if acc_b[0] != acc_i {
            res.violations.push(viol(scn, "dual-verifier", &f.kind, "batch", format!("batch verifier {} but AND of individual checks {} ({}; batch: {}) — fault {} target {} aux {} on {}", if acc_b[0] { "accepts" } else { "rejects" }, if acc_i { "accepts" } else { "rejects" }, why_i, trunc(&decisions[0].1, 60), f.kind, f.target, f.aux, shape)));
        } else if *any_false && acc_b[0] {
            res.violations.push(viol(scn, "safety", &f.kind, "batch", format!("both replicas accept a false claim (fault {} target {} aux {})", f.kind, f.target, f.aux)));
        }
        if f.kind == "none" && !acc_b[0] {
            res.stats.probe("vacuous:honest-batch-rejected");
        }
    }
    let st = sess.stats.clone();
    res.stats.merge(&st);
    res
}
