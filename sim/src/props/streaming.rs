//! Bespoke driver for `streaming_kzg` (C01 / C02 / C05). Its types implement no serialization
//! and no trait, so parties here share in-process objects (stated in DESIGN.md §10): the store and
//! channel seams are absent; the RNG seam, the prover-flavour knob (time- or space-efficient
//! prover, MSM buffer size) and the reference model are the same as everywhere else.
use super::common::viol;
use super::RunResult;
use crate::gen::Gen;
use crate::scenario::*;
use crate::schemes::{PolyGlue, UPoly};
use crate::seams::*;
use crate::session::set_sched;
use ark_ec::pairing::Pairing;
use ark_ff::{UniformRand, Zero};
use ark_poly_commit::streaming_kzg::{CommitterKey, CommitterKeyStream, EvaluationProof, VerifierKey};
use ark_std::iterable::Reverse;
use ark_std::rand::Rng;

pub fn wants_streaming(property: &str, run_seed: u64) -> bool {
    matches!(property, "C01" | "C02" | "C05") && mix64(run_seed, "streaming-pick", 0) % 16 == 0
}

pub fn generate(property: &str, run_seed: u64) -> Scenario {
    let mut g = Gen::new(run_seed ^ 0x5712ea);
    let scheme = if g.r.gen_bool(0.5) { "streaming-bls12_381" } else { "streaming-bn254" }.to_string();
    let max_degree = if g.r.gen_bool(0.8) { g.r.gen_range(1..=24) } else { g.r.gen_range(25..=64) };
    let n_polys = g.r.gen_range(1..=4);
    let n_points = g.r.gen_range(1..=4);
    let cfg = KeyCfg { max_degree, num_vars: None, supported_degree: max_degree, supported_hiding: n_points + g.r.gen_range(0..2), bounds: None, lincode: None };
    let mut polys = vec![];
    for i in 0..n_polys {
        let (shape, degree) = match g.r.gen_range(0..10) {
            0 => (Shape::Zero, 0),
            1 => (Shape::Const, 0),
            2 => (Shape::Dense, max_degree),
            3 => { let d = g.r.gen_range(0..=max_degree); (Shape::LowZeros(g.r.gen_range(0..=d)), d) }
            _ => (Shape::Dense, g.r.gen_range(0..=max_degree)),
        };
        polys.push(PolySpec { label: format!("p{i}"), shape, degree, degree_bound: None, hiding: None, coeff_id: i as u64 });
    }
    // distinct point values (the multi-point verifier interpolates over them)
    let points: Vec<PointSpec> = (0..n_points).map(|i| PointSpec { label: format!("z{i}"), value_id: i as u32 }).collect();
    let mut ops = vec![];
    for _ in 0..g.r.gen_range(1..=3) {
        if property == "C05" || g.r.gen_bool(0.4) {
            let mut queries = vec![];
            for p in 0..n_polys { for z in 0..n_points { queries.push((p, z)); } }
            ops.push(Op::Batch { queries });
        } else {
            ops.push(Op::Open { polys: vec![g.r.gen_range(0..n_polys)], point: g.r.gen_range(0..n_points) });
        }
    }
    let mut faults = vec![];
    if property != "C01" {
        for (oi, op) in ops.iter().enumerate() {
            let n = match op { Op::Open { .. } => 1, Op::Batch { queries } => queries.len(), _ => 0 };
            for kind in ["value+delta", "point-moved", "commitment-swapped", "cancel-pair", "false-subset"] {
                for _ in 0..2 {
                    faults.push(Fault { kind: kind.into(), op: oi, target: g.r.gen_range(0..n.max(1)), aux: g.r.gen_range(0..n.max(1)), param: g.r.gen() });
                }
            }
        }
    }
    let mut env = Env::default();
    env.io_chunk = g.r.gen(); // prover flavour (bit 0) and MSM buffer size
    let sched = g.sched();
    Scenario { property: property.into(), scheme, seed: run_seed, cfg, polys, points, ops, faults, sched, env }
}

pub fn run(scn: &Scenario, log: &EventLog) -> RunResult {
    match scn.scheme.as_str() {
        "streaming-bls12_381" => run_e::<ark_bls12_381::Bls12_381>(scn, log),
        "streaming-bn254" => run_e::<ark_bn254::Bn254>(scn, log),
        other => RunResult { harness: Some(format!("unknown streaming scheme {other}")), ..Default::default() },
    }
}

fn run_e<E: Pairing>(scn: &Scenario, log: &EventLog) -> RunResult {
    let mut res = RunResult::default();
    set_sched(&scn.sched);
    let space = scn.env.io_chunk & 1 == 1;
    let buffer = 1 + ((scn.env.io_chunk >> 1) % 64) as usize;
    log.ev(&format!("start scheme={} seed={} prover={} buffer={}", scn.scheme, scn.seed, if space { "space" } else { "time" }, buffer));
    let mut rng_auth = SimRng::new(scn.seed, "authority", 0).logged(log);
    let ck = match step(|| Ok::<_, String>(CommitterKey::<E>::new(scn.cfg.max_degree, scn.cfg.supported_hiding, &mut rng_auth))) {
        Outcome::Ok(ck) => ck,
        o => {
            res.violations.push(viol(scn, "liveness", "none", "setup", format!("in-domain key generation failed: {}", o.describe())));
            return res;
        }
    };
    rng_auth.mark("setup");
    let vk = VerifierKey::from(&ck);
    let sck = CommitterKeyStream::from(&ck);
    res.stats.fire(if space { "prover-flavour/space" } else { "prover-flavour/time" });
    let polys: Vec<Vec<E::ScalarField>> = scn.polys.iter().map(|ps| UPoly::<E::ScalarField>::build(&scn.cfg, ps, scn.seed).coeffs).collect();
    let points: Vec<E::ScalarField> = scn.points.iter().map(|p| UPoly::<E::ScalarField>::point(&scn.cfg, scn.seed, p.value_id)).collect();
    let truth = |p: usize, z: usize| -> E::ScalarField { let mut acc = E::ScalarField::zero(); for c in polys[p].iter().rev() { acc = acc * points[z] + c; } acc };
    let comms: Vec<_> = polys.iter().map(|p| if space { sck.commit(&Reverse(p.as_slice())) } else { ck.commit(p) }).collect();
    let delta = |k: u64| -> E::ScalarField { loop { let d = E::ScalarField::rand(&mut stream(scn.seed, "delta", k)); if !d.is_zero() { return d; } } };
    let fam = "Streaming";
    for (i, op) in scn.ops.iter().enumerate() {
        match op {
            Op::Open { polys: idx, point } => {
                let p = idx[0];
                let z = points[*point];
                let opened = step(|| Ok::<_, String>(if space { sck.open(&Reverse(polys[p].as_slice()), &z, buffer) } else { ck.open(&polys[p], &z) }));
                let Outcome::Ok((eval, proof)) = opened else {
                    res.violations.push(viol(scn, "liveness", "none", "prove/open", format!("honest streaming prover failed: {}", opened.describe())));
                    continue;
                };
                res.stats.steps += 2;
                res.stats.checks += 1;
                let ok = vk.verify(&comms[p], &z, &truth(p, *point), &proof).is_ok();
                res.classes.insert(format!("{fam}|open|deg{}|{}|honest|{}", scn.polys[p].degree.min(3), if space { "space" } else { "time" }, ok));
                log.ev(&format!("op{i} open p{p}@z{point} -> {ok}"));
                if eval != truth(p, *point) {
                    res.violations.push(viol(scn, "liveness", "none", "prove/open", format!("streaming prover returned a wrong evaluation for {} ({} prover)", scn.polys[p].label, if space { "space" } else { "time" })));
                }
                if !ok {
                    res.violations.push(viol(scn, "liveness", "none", "verify/open", format!("honest streaming proof not accepted (op {i}, degree {}, {} prover, buffer {buffer})", scn.polys[p].degree, if space { "space" } else { "time" })));
                    continue;
                }
                for f in scn.faults.iter().filter(|f| f.op == i) {
                    let (c2, z2, v2): (usize, E::ScalarField, E::ScalarField) = match f.kind.as_str() {
                        "value+delta" => (p, z, truth(p, *point) + delta(f.param)),
                        "point-moved" => { let z2 = z + delta(f.param); let mut acc = E::ScalarField::zero(); for c in polys[p].iter().rev() { acc = acc * z2 + c; } if acc == truth(p, *point) { continue; } (p, z2, truth(p, *point)) }
                        "commitment-swapped" => { let q = (p + 1 + f.aux) % polys.len(); if q == p || truth(q, *point) == truth(p, *point) { continue; } (q, z, truth(p, *point)) }
                        _ => continue,
                    };
                    res.stats.fire(&f.kind);
                    res.stats.checks += 1;
                    let acc = vk.verify(&comms[c2], &z2, &v2, &proof).is_ok();
                    res.classes.insert(format!("{fam}|open|{}|{}", f.kind, acc));
                    if acc {
                        res.violations.push(viol(scn, "safety", &f.kind, "open", format!("streaming verifier accepted a false statement ({} on op {i})", f.kind)));
                    }
                }
            }
            Op::Batch { queries } => {
                // all listed polynomials at all listed (distinct) points
                let mut ps: Vec<usize> = queries.iter().map(|q| q.0).collect(); ps.sort(); ps.dedup();
                let mut zs: Vec<usize> = queries.iter().map(|q| q.1).collect(); zs.sort(); zs.dedup();
                // the key holds min(max_eval_points, max_degree) + 1 powers in G2: more points are out of domain
                if zs.len() > scn.cfg.supported_hiding.min(scn.cfg.max_degree) {
                    res.stats.probe("streaming:too-many-points-for-key");
                    // Out of the key's domain for the honest prover (it aborts). A byzantine prover is
                    // not bound by that: with m + 1 points for a key made for m, a verifier whose MSMs
                    // silently truncate checks f - (I mod x^m) = q * (Z mod x^(m+1)) instead of
                    // f - I = q * Z. Claims v_j = (r + c x^m)(z_j) with (q, r) = f divmod (Z mod x^(m+1))
                    // and the "proof" [q(tau)]G then verify although every claim is false.
                    use ark_poly::univariate::{DenseOrSparsePolynomial, DensePolynomial};
                    use ark_poly::{DenseUVPolynomial, Polynomial};
                    let m = scn.cfg.supported_hiding.min(scn.cfg.max_degree);
                    let p = ps[0];
                    let zv: Vec<E::ScalarField> = zs.iter().take(m + 1).map(|&z| points[z]).collect();
                    let mut zfull = DensePolynomial::from_coefficients_vec(vec![E::ScalarField::from(1u64)]);
                    for z in &zv { zfull = zfull.naive_mul(&DensePolynomial::from_coefficients_vec(vec![-*z, E::ScalarField::from(1u64)])); }
                    let zprime = DensePolynomial::from_coefficients_vec(zfull.coeffs.iter().take(m + 1).copied().collect());
                    let f = DensePolynomial::from_coefficients_vec(polys[p].clone());
                    // (a crafted proof for false claims in a batched verification: counted under C05 only)
                    if scn.property == "C05" && m >= 1 && !zprime.is_zero() && zprime.degree() == m && f.degree() >= m {
                        if let Some((q, r)) = DenseOrSparsePolynomial::from(&f).divide_with_q_and_r(&DenseOrSparsePolynomial::from(&zprime)) {
                            let c = delta(9000 + i as u64);
                            let mut j = r.coeffs.clone();
                            j.resize(m + 1, E::ScalarField::zero());
                            j[m] += c;
                            let jp = DensePolynomial::from_coefficients_vec(j);
                            let ev: Vec<E::ScalarField> = zv.iter().map(|z| jp.evaluate(z)).collect();
                            let all_false = zs.iter().take(m + 1).zip(ev.iter()).all(|(&z, v)| truth(p, z) != *v);
                            // [q(tau)]G through the public prover: the witness of q(x) * (x - z0) at z0 is q
                            let z0 = zv[0];
                            let shifted = q.naive_mul(&DensePolynomial::from_coefficients_vec(vec![-z0, E::ScalarField::from(1u64)]));
                            if all_false && shifted.degree() <= scn.cfg.max_degree {
                                if let Outcome::Ok((_, pi)) = step(|| Ok::<_, String>(ck.open(&shifted.coeffs, &z0))) {
                                    let eta = E::ScalarField::rand(&mut SimRng::new(scn.seed, "verifier-eta", i as u64));
                                    res.stats.fire("too-many-points-forgery");
                                    res.stats.checks += 1;
                                    let acc = matches!(step(|| Ok::<_, String>(vk.verify_multi_points(&[comms[p]], &zv, &[ev.clone()], &pi, &eta).is_ok())), Outcome::Ok(true));
                                    res.classes.insert(format!("{fam}|batch|too-many-points-forgery|{}", acc));
                                    if acc {
                                        res.violations.push(viol(scn, "safety", "too-many-points-forgery", "batch", format!("verify_multi_points accepted {} false evaluations at {} points with a key made for {} (op {i})", ev.len(), zv.len(), m)));
                                    }
                                }
                            }
                        }
                    }
                    continue;
                }
                let zvals: Vec<E::ScalarField> = zs.iter().map(|&z| points[z]).collect();
                let eta = E::ScalarField::rand(&mut SimRng::new(scn.seed, "verifier-eta", i as u64));
                let plist: Vec<&Vec<E::ScalarField>> = ps.iter().map(|&p| &polys[p]).collect();
                let opened = step(|| Ok::<_, String>(ck.batch_open_multi_points(&plist, &zvals, &eta)));
                let Outcome::Ok(proof) = opened else {
                    res.violations.push(viol(scn, "liveness", "none", "prove/batch", format!("honest multi-point prover failed: {}", opened.describe())));
                    continue;
                };
                let evals: Vec<Vec<E::ScalarField>> = ps.iter().map(|&p| zs.iter().map(|&z| truth(p, z)).collect()).collect();
                let cs: Vec<_> = ps.iter().map(|&p| comms[p]).collect();
                res.stats.steps += 2;
                res.stats.checks += 1;
                let multi = |ev: &Vec<Vec<E::ScalarField>>, pr: &EvaluationProof<E>| -> bool { matches!(step(|| Ok::<_, String>(vk.verify_multi_points(&cs, &zvals, ev, pr, &eta).is_ok())), Outcome::Ok(true)) };
                let ok = multi(&evals, &proof);
                res.classes.insert(format!("{fam}|multi|p{}z{}|honest|{}", ps.len().min(3), zs.len().min(3), ok));
                log.ev(&format!("op{i} multi {}x{} -> {ok}", ps.len(), zs.len()));
                if !ok {
                    res.violations.push(viol(scn, "liveness", "none", "verify/batch", format!("honest multi-point proof not accepted (op {i}, {} polynomials x {} points)", ps.len(), zs.len())));
                    continue;
                }
                // replica I: per-(polynomial, point) single openings, ANDed
                let singles: Vec<Vec<EvaluationProof<E>>> = ps.iter().map(|&p| zs.iter().map(|&z| ck.open(&polys[p], &points[z]).1).collect()).collect();
                let and_single = |ev: &Vec<Vec<E::ScalarField>>| -> bool {
                    let mut all = true;
                    for (a, &p) in ps.iter().enumerate() { for (b, &z) in zs.iter().enumerate() { all &= vk.verify(&comms[p], &points[z], &ev[a][b], &singles[a][b]).is_ok(); } }
                    all
                };
                for f in scn.faults.iter().filter(|f| f.op == i) {
                    let mut ev = evals.clone();
                    let n = ps.len() * zs.len();
                    let (a, b) = ((f.target % n) / zs.len(), (f.target % n) % zs.len());
                    let (a2, b2) = ((f.aux % n) / zs.len(), (f.aux % n) % zs.len());
                    match f.kind.as_str() {
                        "value+delta" => ev[a][b] += delta(f.param),
                        "cancel-pair" => { if (a, b) == (a2, b2) { continue; } let d = delta(f.param); ev[a][b] += d; ev[a2][b2] -= d; }
                        "false-subset" => { for k in 0..n.min(12) { if (f.param >> k) & 1 == 1 { ev[k / zs.len()][k % zs.len()] += delta(f.param ^ k as u64); } } if ev == evals { continue; } }
                        _ => continue,
                    }
                    res.stats.fire(&f.kind);
                    res.stats.checks += 2;
                    let b_acc = multi(&ev, &proof);
                    let i_acc = and_single(&ev);
                    res.classes.insert(format!("{fam}|multi|{}|B{}I{}", f.kind, b_acc, i_acc));
                    if scn.property == "C05" && b_acc != i_acc {
                        res.violations.push(viol(scn, "dual-verifier", &f.kind, "batch", format!("verify_multi_points {} but the per-point verify calls {} ({} on op {i})", if b_acc { "accepts" } else { "rejects" }, if i_acc { "accept" } else { "reject" }, f.kind)));
                    }
                    if b_acc {
                        res.violations.push(viol(scn, "safety", &f.kind, "batch", format!("verify_multi_points accepted false evaluations ({} on op {i})", f.kind)));
                    }
                }
            }
            _ => {}
        }
    }
    res
}
