//! pcsim — deterministic simulation with fault injection for arkworks-rs/poly-commit.
//! See /verif/DESIGN.md. Exit codes: 0 = property held on everything explored (known findings
//! are printed as KNOWN-FINDING lines), 1 = VIOLATION, 2 = harness error.
pub mod adapters;
pub mod domain;
pub mod gen;
pub mod props;
pub mod scenario;
pub mod schemes;
pub mod seams;
pub mod session;
pub mod shrink;
#[cfg(feature = "full")]
pub mod surgery;
#[cfg(feature = "full")]
pub mod lincode;
#[cfg(feature = "full")]
pub mod hiding;
#[cfg(feature = "full")]
pub mod ipa_forge;
#[cfg(feature = "full")]
pub mod refcheck;

use scenario::Scenario;
use seams::mix64;
use serde_json::json;
use session::{Stats, Violation};
use std::collections::{BTreeMap, BTreeSet};
use std::sync::atomic::{AtomicUsize, Ordering};
use std::sync::{Arc, Mutex};
use std::time::Instant;

pub const DEFAULT_SEED: u64 = 20260926;

struct Args {
    cmd: String,
    pos: Vec<String>,
    opts: BTreeMap<String, String>,
}
fn parse_args() -> Args {
    let mut it = std::env::args().skip(1);
    let cmd = it.next().unwrap_or_else(|| "help".into());
    let mut pos = vec![];
    let mut opts = BTreeMap::new();
    let rest: Vec<String> = it.collect();
    let mut i = 0;
    while i < rest.len() {
        if let Some(k) = rest[i].strip_prefix("--") {
            if i + 1 < rest.len() && !rest[i + 1].starts_with("--") {
                opts.insert(k.to_string(), rest[i + 1].clone());
                i += 2;
            } else {
                opts.insert(k.to_string(), "1".into());
                i += 1;
            }
        } else {
            pos.push(rest[i].clone());
            i += 1;
        }
    }
    Args { cmd, pos, opts }
}

fn verif_seed(a: &Args) -> u64 {
    a.opts.get("seed").cloned().or_else(|| std::env::var("VERIF_SEED").ok()).and_then(|s| s.parse().ok()).unwrap_or(DEFAULT_SEED)
}

fn run_seed(batch_seed: u64, property: &str, i: u64) -> u64 {
    mix64(batch_seed, property, i)
}

struct OneRun {
    index: u64,
    scn: Scenario,
    res: props::RunResult,
    wall_ms: u128,
}

fn run_batch(property: &str, batch_seed: u64, first: u64, count: u64, jobs: usize, budget_s: f64) -> Vec<OneRun> {
    let next = Arc::new(AtomicUsize::new(0));
    let out: Arc<Mutex<Vec<OneRun>>> = Arc::new(Mutex::new(vec![]));
    let t0 = Instant::now();
    let mut handles = vec![];
    for _ in 0..jobs.max(1) {
        let next = next.clone();
        let out = out.clone();
        let property = property.to_string();
        handles.push(
            std::thread::Builder::new()
                .stack_size(64 << 20)
                .spawn(move || loop {
                    let k = next.fetch_add(1, Ordering::SeqCst) as u64;
                    if k >= count {
                        break;
                    }
                    if budget_s > 0.0 && t0.elapsed().as_secs_f64() > budget_s {
                        break;
                    }
                    let index = first + k;
                    let t = Instant::now();
                    // a panic of harness code (not of a party step, those are caught as aborts) is a
                    // harness error of that run, never a violation
                    let scn = props::generate(&property, run_seed(batch_seed, &property, index));
                    let res = match std::panic::catch_unwind(std::panic::AssertUnwindSafe(|| props::execute(&scn, false).0)) {
                        Ok(r) => r,
                        Err(_) => props::RunResult { harness: Some(format!("harness code panicked in run {index}")), ..Default::default() },
                    };
                    out.lock().unwrap().push(OneRun { index, scn, res, wall_ms: t.elapsed().as_millis() });
                })
                .unwrap(),
        );
    }
    for h in handles {
        h.join().expect("worker thread died");
    }
    let mut v = std::mem::take(&mut *out.lock().unwrap());
    v.sort_by_key(|r| r.index);
    v
}

#[derive(serde::Deserialize, Default)]
struct KnownFindings {
    findings: Vec<KnownFinding>,
}
#[derive(serde::Deserialize, Clone)]
struct KnownFinding {
    property: String,
    key: String,
    what: String,
    status: String,
}
fn load_known() -> KnownFindings {
    let p = std::env::var("PCSIM_KNOWN").unwrap_or_else(|_| "/verif/known_findings.json".into());
    match std::fs::read_to_string(&p) {
        Ok(s) => serde_json::from_str(&s).unwrap_or_else(|e| {
            println!("HARNESS-ERROR cannot parse {p}: {e}");
            std::process::exit(2)
        }),
        Err(_) => KnownFindings::default(),
    }
}

#[derive(serde::Serialize, serde::Deserialize)]
struct ReplayFile {
    scenario: Scenario,
    violation: Violation,
    signature: String,
    log_digest: String,
    minimised_from: serde_json::Value,
    shrink_executions: usize,
}

fn tier_runs(property: &str, tier: &str) -> (u64, f64) {
    // (number of scenarios, wall-clock cap in seconds); quick is sized for roughly 20-60 s on 16 cores
    let quick: u64 = match property {
        "C01" => 10000,
        "C02" => 6000,
        "C03" => 5000,
        "C04" => 6000,
        "C05" => 2500,
        "C06" => 8000,
        "C07" => 5000,
        "C10" => 4000,
        "C11" => 6000,
        "C12" => 1500,
        "C17" => 10000,
        "C18" => 800,
        _ => 800,
    };
    match tier {
        "thorough" => (if property == "C18" { quick * 30 } else { quick * 15 }, 1500.0),
        _ => (quick, 300.0),
    }
}

fn cmd_run(a: &Args) -> i32 {
    let property = a.pos.get(0).cloned().unwrap_or_else(|| {
        println!("usage: pcsim run <PROPERTY> [--tier quick|thorough] [--runs N] [--seed S] [--jobs J] [--evidence FILE]");
        std::process::exit(2)
    });
    let tier = a.opts.get("tier").cloned().or_else(|| std::env::var("VERIF_TIER").ok()).unwrap_or_else(|| "quick".into());
    let tier = if tier == "thorough" { "thorough" } else { "quick" };
    let seed = verif_seed(a);
    gen::DEEP.store(tier == "thorough", Ordering::Relaxed);
    let (def_runs, budget) = tier_runs(&property, tier);
    let runs: u64 = a.opts.get("runs").and_then(|s| s.parse().ok()).unwrap_or(def_runs);
    let jobs: usize = a.opts.get("jobs").and_then(|s| s.parse().ok()).unwrap_or(16);
    let evidence = a.opts.get("evidence").cloned().unwrap_or_else(|| format!("/verif/evidence/{property}.json"));
    println!("pcsim run property={property} tier={tier} VERIF_SEED={seed} runs={runs} jobs={jobs}");
    seams::install_panic_hook();
    let t0 = Instant::now();
    let results = run_batch(&property, seed, 0, runs, jobs, budget);
    let mut results = results;
    let mut cross_info = serde_json::Map::new();
    if let Some(files) = a.opts.get("cross") {
        // C18: digest lines produced by the other build variants for the same run indices
        for spec in files.split(',').filter(|s| !s.is_empty()) {
            let (tag, path) = spec.rsplit_once('=').unwrap_or(("variant", spec));
            let txt = match std::fs::read_to_string(path) {
                Ok(t) => t,
                Err(e) => {
                    println!("HARNESS-ERROR cannot read cross-variant digests {path}: {e}");
                    return 2;
                }
            };
            let mut compared = 0u64;
            let mut mismatched = 0u64;
            for l in txt.lines() {
                let mut it = l.splitn(4, ' ');
                let (Some(idx), Some(_scheme), Some(dig), parts) = (it.next(), it.next(), it.next(), it.next()) else { continue };
                let Ok(idx) = idx.parse::<u64>() else { continue };
                let Some(r) = results.iter_mut().find(|r| r.index == idx) else { continue };
                let mine = props::c18_line(&r.scn);
                let (mdig, mparts) = mine.split_once(' ').unwrap_or((mine.as_str(), ""));
                compared += 1;
                if mdig != dig {
                    mismatched += 1;
                    let theirs: Vec<&str> = parts.unwrap_or("").split(',').collect();
                    let ours: Vec<&str> = mparts.split(',').collect();
                    let diff: Vec<String> = ours.iter().zip(theirs.iter()).filter(|(x, y)| x != y).map(|(x, _)| x.split('=').next().unwrap_or("").to_string()).collect();
                    let comp = diff.first().map(|d| d.split(':').next().unwrap_or("").to_string()).unwrap_or_else(|| "shape".into());
                    r.res.violations.push(Violation {
                        property: property.clone(),
                        oracle: "cross-variant".into(),
                        scheme: r.scn.scheme.clone(),
                        fault: tag.split(':').next().unwrap_or(tag).to_string(),
                        component: comp,
                        detail: format!("outputs of run {idx} differ between the simulated build and {tag}: {:?} (digest {mdig} vs {dig})", diff),
                    });
                }
            }
            cross_info.insert(tag.to_string(), json!({"compared": compared, "mismatched": mismatched}));
            println!("cross-variant {tag}: {compared} runs compared, {mismatched} mismatched");
        }
    }
    let wall = t0.elapsed().as_secs_f64();

    // ---- aggregate
    let mut stats = Stats::default();
    let mut classes: BTreeSet<String> = BTreeSet::new();
    let mut per_scheme: BTreeMap<String, u64> = BTreeMap::new();
    let mut events = 0u64;
    let mut harness: Vec<String> = vec![];
    let mut viols: Vec<(&OneRun, &Violation)> = vec![];
    for r in &results {
        stats.merge(&r.res.stats);
        classes.extend(r.res.classes.iter().cloned());
        *per_scheme.entry(r.scn.scheme.clone()).or_default() += 1;
        events += r.res.events;
        if let Some(h) = &r.res.harness {
            harness.push(format!("run {} ({}): {}", r.index, r.scn.scheme, h));
        }
        for v in &r.res.violations {
            viols.push((r, v));
        }
    }
    if !harness.is_empty() {
        for h in harness.iter().take(10) {
            println!("HARNESS-ERROR {h}");
        }
        return 2;
    }

    // ---- violations: known findings vs new
    let known = load_known();
    let mut by_key: BTreeMap<String, Vec<(&OneRun, &Violation)>> = BTreeMap::new();
    for (r, v) in &viols {
        by_key.entry(v.finding_key()).or_default().push((r, v));
    }
    let mut exit = 0;
    let mut known_hit = vec![];
    let mut new_violations = 0;
    let mut replay_paths = vec![];
    for (key, group) in &by_key {
        if let Some(k) = known.findings.iter().find(|k| k.status == "known" && k.property == property && &k.key == key) {
            println!("KNOWN-FINDING: property={} {} [{} occurrence(s), key {}]", property, k.what, group.len(), key);
            known_hit.push(key.clone());
            continue;
        }
        new_violations += group.len();
        exit = 1;
        let (r, v) = group[0];
        println!("violation in run {} ({}): {} — {}", r.index, r.scn.scheme, v.signature(), v.detail);
        if v.oracle == "cross-variant" {
            // not reproducible inside one build variant: the replay file holds the scenario, and
            // `./check C18 --replay` re-runs it in all variants
            let file = ReplayFile { scenario: r.scn.clone(), violation: (*v).clone(), signature: v.signature(), log_digest: String::new(), minimised_from: r.scn.summary(), shrink_executions: 0 };
            let dir = std::env::var("PCSIM_REPLAYS").unwrap_or_else(|_| "/verif/replays".into());
            let _ = std::fs::create_dir_all(&dir);
            let path = format!("{}/{}-{}.json", dir, property, &seams::short_digest(key.as_bytes()));
            std::fs::write(&path, serde_json::to_string_pretty(&file).unwrap()).expect("cannot write replay file");
            println!("VIOLATION property={} replay={}", property, path);
            continue;
        }
        let (min, execs) = shrink::shrink(&r.scn, &v.signature(), 400);
        let (mres, _) = props::execute(&min, false);
        let mv = mres.violations.iter().find(|x| x.signature() == v.signature()).cloned().unwrap_or_else(|| (*v).clone());
        let file = ReplayFile {
            scenario: min.clone(),
            violation: mv.clone(),
            signature: v.signature(),
            log_digest: mres.log_digest.clone(),
            minimised_from: r.scn.summary(),
            shrink_executions: execs,
        };
        let dir = std::env::var("PCSIM_REPLAYS").unwrap_or_else(|_| "/verif/replays".into());
        let _ = std::fs::create_dir_all(&dir);
        let path = format!("{}/{}-{}.json", dir, property, &seams::short_digest(key.as_bytes()));
        std::fs::write(&path, serde_json::to_string_pretty(&file).unwrap()).expect("cannot write replay file");
        // the minimised file must fail the same way in a fresh process
        let exe = std::env::current_exe().unwrap();
        let st = std::process::Command::new(exe).arg("replay").arg(&path).arg("--quiet").stdout(std::process::Stdio::null()).stderr(std::process::Stdio::null()).status();
        match st {
            Ok(s) if s.code() == Some(1) => {}
            other => {
                println!("HARNESS-ERROR replay of {path} in a fresh process did not reproduce the violation: {other:?}");
                return 2;
            }
        }
        println!("  minimised in {execs} executions: {}", serde_json::to_string(&min.summary()).unwrap());
        println!("  {}", mv.detail);
        println!("VIOLATION property={} replay={}", property, path);
        replay_paths.push(path);
    }
    for k in known.findings.iter().filter(|k| k.status == "known" && k.property == property) {
        if !known_hit.contains(&k.key) {
            println!("note: listed known finding not observed in this run: {}", k.key);
        }
    }

    // ---- evidence
    let samples: Vec<serde_json::Value> = results.iter().take(3).chain(results.iter().rev().take(2)).map(|r| r.scn.summary()).collect();
    let slowest = results.iter().map(|r| r.wall_ms).max().unwrap_or(0);
    let level = level_of(&property);
    let ev = json!({
        "property_id": property,
        "tier": tier,
        "seed": seed,
        "level": level,
        "wall_s": wall,
        "violations": new_violations,
        "coverage": {
            "evaluations": results.len(),
            "distinct_nontrivial": classes.len(),
            "rule": rule_of(&property),
            "samples": samples,
            "simulated_runs": results.len(),
            "runs_per_hour": if wall > 0.0 { (results.len() as f64 / wall * 3600.0) as u64 } else { 0 },
            "simulated_steps": stats.steps,
            "simulated_time": "none: the library has no clock; the simulator counts party steps and seam events instead",
            "seam_events": events,
            "verifier_checks": stats.checks,
            "faults_fired": stats.fired,
            "probes_hit": stats.probes,
            "runs_per_scheme": per_scheme,
            "slowest_run_ms": slowest as u64,
            "known_findings_observed": known_hit,
            "cross_variant": cross_info,
            "real_code": ["ark-poly-commit (all of /repo/poly-commit/src)", "ark-ff", "ark-ec", "ark-poly", "ark-serialize", "ark-crypto-primitives (Poseidon sponge, Merkle tree, SHA-256/Blake2s CRHs)"],
            "stubbed": [if cfg!(feature = "shim") { "rayon scheduler (deterministic shim, /verif/shims/rayon)" } else { "rayon scheduler NOT stubbed in this run: the simulated build failed against this tree and the check fell back to the real-rayon build (schedules not controlled; see DESIGN.md 7)" }, "OS entropy (Hyrax thread_rng behind the pc_verif hook)", "party RNGs (ChaCha20 streams)", "store / channel / I/O endpoints (in-memory with scripted faults)"],
            "exhaustive": false,
        },
        "assumptions": assumptions_of(&property),
    });
    if let Some(dir) = std::path::Path::new(&evidence).parent() {
        let _ = std::fs::create_dir_all(dir);
    }
    std::fs::write(&evidence, serde_json::to_string_pretty(&ev).unwrap()).expect("cannot write evidence");
    println!(
        "done: {} runs in {:.1}s ({} distinct classes, {} steps, {} seam events), {} new violation(s), {} known finding key(s); evidence {}",
        results.len(), wall, classes.len(), stats.steps, events, new_violations, known_hit.len(), evidence
    );
    if (results.len() as u64) < runs {
        println!("note: wall-clock cap reached after {} of {} runs", results.len(), runs);
    }
    exit
}

fn level_of(property: &str) -> &'static str {
    match property {
        "C12" => "fault_enumeration",
        _ => "exploration",
    }
}
fn rule_of(property: &str) -> String {
    let common = "Scenarios are drawn swarm-style from H(VERIF_SEED, property, run index): scheme instantiation (23 + streaming), key sizes, enforced bounds as spelled, polynomial shapes / degrees / bounds / hiding, point labels (some sharing one value), operations, enabled fault kinds and their positions, benign environment (reorder, duplicate, short I/O, EINTR, restarts, compression / validation mode), linear-code tuning knobs, rayon schedule seed and thread knob. ";
    let specific = match property {
        "C01" => "A case is the tuple (scheme family, operation shape, configuration class, benign-fault class, verifier decision); only runs that reach a verifier decision contribute.",
        "C02" | "C03" | "C04" | "C06" => "A case is the tuple (scheme family, operation shape, configuration class, fault kind [and mutated component], verifier decision) of one faulted delivery; faults that cannot be applied to the drawn scenario, or that leave the statement true, are counted under probes_hit and contribute nothing.",
        "C05" => "A case is the tuple (scheme family, batch shape, configuration class, fault kind, decision of the per-point replica, decision of the batch replica); every case is evaluated under 4 verifier RNG streams.",
        "C07" => "A case is the tuple (scheme family, configuration class, monitor [rng accounting | structural audit | random_v | fork same / other stream | absent rng], outcome).",
        "C10" => "A case is the tuple (scheme family, operation shape, configuration class, replaced component, library decision, reference decision) of one transcript of the single-fault neighbourhood.",
        "C11" => "A case is the tuple (scheme family, history length, operation shape, configuration class, honest | fault kind, non-constant?, decision).",
        "C12" => "A case is the tuple (scheme family, operation shape, configuration class, compress x validate mode, honest | tampered claim, decision) of the decision-equality part; the I/O contract part is counted separately under probes_hit.io-cases (one case = one artefact x mode x fault x byte offset); artefacts-offsets-exhaustive counts artefact encodings whose whole offset space was enumerated.",
        "C17" => "A case is the tuple (scheme family, out-of-domain request kind, configuration class, outcome class [err | abort | ok]).",
        "C18" => "distinct_nontrivial counts DISTINCT SCHEDULE FINGERPRINTS: a running hash of every scheduling decision the rayon shim took in one execution (job permutations, reduction cut points, join orders), per scheme family; each scenario is executed under the identity schedule, 5 seeded schedules x thread knobs {1,2,3,8,16} and one of them twice; coverage.cross_variant lists how many scenarios were additionally compared with the no-`parallel` build and the real-rayon build.",
        _ => "distinct tuples (scheme family, operation shape, config class, fault kind, fault target, decision).",
    };
    format!("{common}{specific}")
}
fn assumptions_of(property: &str) -> Vec<String> {
    let mut v = vec![
        "sampling, not proof: a clean batch is evidence over the explored scenarios only".to_string(),
        "the deterministic rayon shim explores only executions real rayon permits (job order, contiguous reduction splits, join order, thread-count knob)".to_string(),
        "ark-ff / ark-ec / ark-poly / ark-serialize / ark-crypto-primitives are trusted as built from the cargo cache".to_string(),
        "ground truth values come from the harness's own evaluators (Horner / hypercube sum / term sum), not from Polynomial::evaluate".to_string(),
    ];
    match property {
        "C02" | "C03" | "C04" | "C05" | "C06" | "C11" => v.push("negative oracles demand rejection only of statements the reference model knows to be false; rejection is probabilistic in the scheme's challenges (128-bit) - documented exemptions in DESIGN.md section 10.3".into()),
        "C07" => v.push("Hyrax under `parallel` takes its commit blinders from the seeded hook RNG (pc_verif), not from the caller".into()),
        "C10" => v.push("the reference verifiers share LinearEncode::{encode,tensor}, Path::verify and the Poseidon sponge with the library".into()),
        "C12" => v.push("an Interrupted write may surface as Err (ark-serialize 0.5.0 writes bool with Write::write): Ok => identical bytes is what is demanded".into()),
        "C18" => v.push("variant C (real rayon) is corroboration only: its interleavings are not controlled".into()),
        _ => {}
    }
    v
}

fn cmd_replay(a: &Args) -> i32 {
    let path = a.pos.get(0).expect("usage: pcsim replay <file>");
    let quiet = a.opts.contains_key("quiet");
    seams::install_panic_hook();
    let txt = std::fs::read_to_string(path).unwrap_or_else(|e| {
        println!("HARNESS-ERROR cannot read {path}: {e}");
        std::process::exit(2)
    });
    let file: ReplayFile = serde_json::from_str(&txt).unwrap_or_else(|e| {
        println!("HARNESS-ERROR cannot parse {path}: {e}");
        std::process::exit(2)
    });
    let (res, lines) = props::execute(&file.scenario, !quiet);
    if let Some(h) = res.harness {
        println!("HARNESS-ERROR {h}");
        return 2;
    }
    if !quiet {
        for l in &lines {
            println!("{l}");
        }
    }
    let same = res.violations.iter().find(|v| v.signature() == file.signature);
    match same {
        Some(v) => {
            if res.log_digest != file.log_digest {
                println!("replay reproduced the violation but the event-log digest differs ({} vs recorded {})", res.log_digest, file.log_digest);
            }
            println!("reproduced: {} — {}", v.signature(), v.detail);
            println!("VIOLATION property={} replay={}", v.property, path);
            1
        }
        None => {
            println!("not reproduced: scenario ran with {} violation(s), none with signature {}", res.violations.len(), file.signature);
            0
        }
    }
}

/// Print "index digest" for a range of runs: used by the determinism self-test, which runs this
/// twice in fresh processes at different worker counts and diffs the output.
fn cmd_digests(a: &Args) -> i32 {
    let property = a.pos.get(0).expect("usage: pcsim digests <PROPERTY> --runs N");
    gen::DEEP.store(a.opts.get("tier").map_or(false, |t| t == "thorough"), Ordering::Relaxed);
    let seed = verif_seed(a);
    let runs: u64 = a.opts.get("runs").and_then(|s| s.parse().ok()).unwrap_or(64);
    let jobs: usize = a.opts.get("jobs").and_then(|s| s.parse().ok()).unwrap_or(16);
    seams::install_panic_hook();
    let results = run_batch(property, seed, 0, runs, jobs, 0.0);
    for r in &results {
        if let Some(h) = &r.res.harness {
            println!("HARNESS-ERROR run {}: {}", r.index, h);
            return 2;
        }
        println!("{} {} {} v={}", r.index, r.scn.scheme, r.res.log_digest, r.res.violations.len());
    }
    0
}

fn cmd_show(a: &Args) -> i32 {
    let property = a.pos.get(0).expect("usage: pcsim show <PROPERTY> <index>");
    gen::DEEP.store(a.opts.get("tier").map_or(false, |t| t == "thorough"), Ordering::Relaxed);
    let index: u64 = a.pos.get(1).and_then(|s| s.parse().ok()).unwrap_or(0);
    let seed = verif_seed(a);
    seams::install_panic_hook();
    let scn = props::generate(property, run_seed(seed, property, index));
    println!("{}", serde_json::to_string_pretty(&scn).unwrap());
    let (res, lines) = props::execute(&scn, true);
    for l in lines {
        println!("{l}");
    }
    println!("digest {} violations {:?} harness {:?}", res.log_digest, res.violations, res.harness);
    0
}

/// C18 cross-variant lines: "<index> <scheme> <digest> <parts>" for the first N runs of the batch.
fn cmd_c18_digests(a: &Args) -> i32 {
    gen::DEEP.store(a.opts.get("tier").map_or(false, |t| t == "thorough"), Ordering::Relaxed);
    let seed = verif_seed(a);
    let runs: u64 = a.opts.get("runs").and_then(|s| s.parse().ok()).unwrap_or(64);
    let jobs: usize = a.opts.get("jobs").and_then(|s| s.parse().ok()).unwrap_or(4);
    seams::install_panic_hook();
    let next = Arc::new(AtomicUsize::new(0));
    let out: Arc<Mutex<Vec<(u64, String)>>> = Arc::new(Mutex::new(vec![]));
    let mut hs = vec![];
    for _ in 0..jobs.max(1) {
        let (next, out) = (next.clone(), out.clone());
        hs.push(std::thread::Builder::new().stack_size(64 << 20).spawn(move || loop {
            let k = next.fetch_add(1, Ordering::SeqCst) as u64;
            if k >= runs {
                break;
            }
            let scn = props::generate("C18", run_seed(seed, "C18", k));
            let line = format!("{} {} {}", k, scn.scheme, props::c18_line(&scn));
            out.lock().unwrap().push((k, line));
        }).unwrap());
    }
    for h in hs {
        h.join().expect("worker died");
    }
    let mut v = std::mem::take(&mut *out.lock().unwrap());
    v.sort();
    for (_, l) in v {
        println!("{l}");
    }
    0
}

/// digest line of the scenario stored in a replay file (for cross-variant replays)
fn cmd_c18_one(a: &Args) -> i32 {
    let path = a.pos.get(0).expect("usage: pcsim c18-one <replay file>");
    seams::install_panic_hook();
    let file: ReplayFile = match std::fs::read_to_string(path).map_err(|e| e.to_string()).and_then(|t| serde_json::from_str(&t).map_err(|e| e.to_string())) {
        Ok(f) => f,
        Err(e) => {
            println!("HARNESS-ERROR {e}");
            return 2;
        }
    };
    println!("0 {} {}", file.scenario.scheme, props::c18_line(&file.scenario));
    0
}

fn main() {
    let a = parse_args();
    let code = match a.cmd.as_str() {
        "run" => cmd_run(&a),
        "replay" => cmd_replay(&a),
        "digests" => cmd_digests(&a),
        "show" => cmd_show(&a),
        "c18-digests" => cmd_c18_digests(&a),
        "c18-one" => cmd_c18_one(&a),
        _ => {
            println!("pcsim run|replay|digests|show …  (see /verif/DESIGN.md)");
            2
        }
    };
    std::process::exit(code);
}
