//! Scheme-specific surgery on proofs and commitments for the fault catalogue (DESIGN.md §2.3):
//! single-component replacement by a fresh valid element, Option toggles and shape mutations.
//! Crate-private types (linear-code proofs and commitments) are reached through mirror structs with
//! the same canonical layout: bytes -> mirror -> mutate -> bytes -> library type.
use crate::seams::stream;
use ark_crypto_primitives::merkle_tree::{Config, Path};
use ark_ec::{pairing::Pairing, AffineRepr, CurveGroup};
use ark_ff::{PrimeField, UniformRand, Zero};
use ark_poly_commit::{hyrax::HyraxProof, ipa_pc, kzg10, marlin_pst13_pc};
use ark_serialize::{CanonicalDeserialize, CanonicalSerialize};
use ark_std::rand::Rng;

fn g1<E: Pairing>(seed: u64, k: u64) -> E::G1Affine {
    E::G1::rand(&mut stream(seed, "surgery-g1", k)).into_affine()
}
fn grp<G: AffineRepr>(seed: u64, k: u64) -> G {
    G::Group::rand(&mut stream(seed, "surgery-g", k)).into_affine()
}
fn fe<F: PrimeField>(seed: u64, k: u64) -> F {
    loop {
        let x = F::rand(&mut stream(seed, "surgery-f", k));
        if !x.is_zero() {
            return x;
        }
    }
}

pub fn kzg_proof_variants<E: Pairing>(p: &kzg10::Proof<E>, seed: u64) -> Vec<(String, kzg10::Proof<E>)> {
    let mut out = vec![];
    out.push(("w-replaced".to_string(), kzg10::Proof { w: g1::<E>(seed, 1), random_v: p.random_v }));
    out.push(("w-identity".to_string(), kzg10::Proof { w: E::G1Affine::zero(), random_v: p.random_v }));
    out.push(("w-negated".to_string(), kzg10::Proof { w: (-p.w.into_group()).into_affine(), random_v: p.random_v }));
    match p.random_v {
        Some(_) => {
            out.push(("random_v-replaced".to_string(), kzg10::Proof { w: p.w, random_v: Some(fe(seed, 2)) }));
            out.push(("random_v-removed".to_string(), kzg10::Proof { w: p.w, random_v: None }));
        }
        None => out.push(("random_v-added".to_string(), kzg10::Proof { w: p.w, random_v: Some(fe(seed, 3)) })),
    }
    out
}

pub fn pst_proof_variants<E: Pairing>(p: &marlin_pst13_pc::Proof<E>, seed: u64) -> Vec<(String, marlin_pst13_pc::Proof<E>)> {
    let mut out = vec![];
    for j in 0..p.w.len() {
        let mut q = p.clone();
        q.w[j] = g1::<E>(seed, 10 + j as u64);
        out.push((format!("w[{}]-replaced", j.min(2)), q));
    }
    if !p.w.is_empty() {
        let mut q = p.clone();
        q.w.pop();
        out.push(("w-shorter".to_string(), q));
        let mut q = p.clone();
        q.w.swap(0, p.w.len() - 1);
        if p.w.len() > 1 && p.w[0] != p.w[p.w.len() - 1] {
            out.push(("w-permuted".to_string(), q));
        }
    }
    let mut q = p.clone();
    q.w.push(g1::<E>(seed, 90));
    out.push(("w-longer".to_string(), q));
    let mut q = p.clone();
    q.w.push(E::G1Affine::zero());
    out.push(("w-longer-identity".to_string(), q));
    match p.random_v {
        Some(_) => {
            let mut q = p.clone();
            q.random_v = Some(fe(seed, 91));
            out.push(("random_v-replaced".to_string(), q));
            let mut q = p.clone();
            q.random_v = None;
            out.push(("random_v-removed".to_string(), q));
        }
        None => {
            let mut q = p.clone();
            q.random_v = Some(fe(seed, 92));
            out.push(("random_v-added".to_string(), q));
        }
    }
    out
}

pub fn ipa_proof_variants<G: AffineRepr>(p: &ipa_pc::Proof<G>, seed: u64) -> Vec<(String, ipa_pc::Proof<G>)> {
    let mut out = vec![];
    for j in 0..p.l_vec.len() {
        let mut q = p.clone();
        q.l_vec[j] = grp::<G>(seed, 100 + j as u64);
        out.push((format!("l_vec[{}]-replaced", j.min(2)), q));
        let mut q = p.clone();
        q.r_vec[j] = grp::<G>(seed, 200 + j as u64);
        out.push((format!("r_vec[{}]-replaced", j.min(2)), q));
    }
    let mut q = p.clone();
    q.final_comm_key = grp::<G>(seed, 300);
    out.push(("final_comm_key-replaced".to_string(), q));
    let mut q = p.clone();
    q.c = fe(seed, 301);
    out.push(("c-replaced".to_string(), q));
    match (p.hiding_comm, p.rand) {
        (Some(_), Some(_)) => {
            let mut q = p.clone();
            q.hiding_comm = Some(grp::<G>(seed, 302));
            out.push(("hiding_comm-replaced".to_string(), q));
            let mut q = p.clone();
            q.rand = Some(fe(seed, 303));
            out.push(("rand-replaced".to_string(), q));
            let mut q = p.clone();
            q.hiding_comm = None;
            q.rand = None;
            out.push(("hiding-removed".to_string(), q));
            let mut q = p.clone();
            q.rand = None;
            out.push(("rand-removed".to_string(), q));
        }
        _ => {
            let mut q = p.clone();
            q.hiding_comm = Some(grp::<G>(seed, 304));
            q.rand = Some(fe(seed, 305));
            out.push(("hiding-added".to_string(), q));
        }
    }
    // rounds log_d +- k
    for k in 1..=2usize {
        if p.l_vec.len() >= k {
            let mut q = p.clone();
            q.l_vec.truncate(p.l_vec.len() - k);
            q.r_vec.truncate(p.r_vec.len() - k);
            out.push((format!("rounds-minus-{k}"), q));
            let mut q = p.clone();
            q.l_vec.drain(0..k);
            q.r_vec.drain(0..k);
            out.push((format!("rounds-minus-{k}-front"), q));
        }
        let mut q = p.clone();
        for i in 0..k {
            q.l_vec.push(G::zero());
            q.r_vec.push(G::zero());
            let _ = i;
        }
        out.push((format!("rounds-plus-{k}-identity"), q));
        let mut q = p.clone();
        for i in 0..k {
            q.l_vec.insert(0, grp::<G>(seed, 400 + i as u64));
            q.r_vec.insert(0, grp::<G>(seed, 500 + i as u64));
        }
        out.push((format!("rounds-plus-{k}-random-front"), q));
    }
    let mut q = p.clone();
    q.l_vec.push(grp::<G>(seed, 600));
    out.push(("l_vec-longer-than-r_vec".to_string(), q));
    out
}

pub fn hyrax_proof_variants<G: AffineRepr>(p: &Vec<HyraxProof<G>>, seed: u64) -> Vec<(String, Vec<HyraxProof<G>>)> {
    let mut out = vec![];
    for (i, e) in p.iter().enumerate().take(2) {
        let set = |f: &dyn Fn(&mut HyraxProof<G>)| {
            let mut q = p.clone();
            f(&mut q[i]);
            q
        };
        let _ = e;
        out.push(("com_eval-replaced".to_string(), set(&|x| x.com_eval = grp::<G>(seed, 700 + i as u64))));
        out.push(("com_d-replaced".to_string(), set(&|x| x.com_d = grp::<G>(seed, 710 + i as u64))));
        out.push(("com_b-replaced".to_string(), set(&|x| x.com_b = grp::<G>(seed, 720 + i as u64))));
        out.push(("z_d-replaced".to_string(), set(&|x| x.z_d = fe(seed, 730 + i as u64))));
        out.push(("z_b-replaced".to_string(), set(&|x| x.z_b = fe(seed, 740 + i as u64))));
        out.push(("r_eval-replaced".to_string(), set(&|x| x.r_eval = fe(seed, 745 + i as u64))));
        out.push(("z[0]-replaced".to_string(), set(&|x| if !x.z.is_empty() { x.z[0] = fe(seed, 750 + i as u64) })));
        out.push(("z[last]-replaced".to_string(), set(&|x| if let Some(l) = x.z.last_mut() { *l = fe(seed, 760 + i as u64) })));
        out.push(("z-shorter".to_string(), set(&|x| { x.z.pop(); })));
        out.push(("z-longer".to_string(), set(&|x| x.z.push(fe(seed, 770 + i as u64)))));
        out.push(("z-longer-zero".to_string(), set(&|x| x.z.push(G::ScalarField::zero()))));
    }
    if !p.is_empty() {
        let mut q = p.clone();
        q.pop();
        out.push(("proofs-shorter".to_string(), q));
        let mut q = p.clone();
        q.push(p[0].clone());
        out.push(("proofs-longer".to_string(), q));
        if p.len() > 1 {
            let mut q = p.clone();
            q.swap(0, 1);
            out.push(("proofs-permuted".to_string(), q));
        }
        out.push(("proofs-empty".to_string(), vec![]));
    }
    out
}

// ---------------------------------------------------------------------------------------------
// Linear codes: mirror of `LinCodePCProof` (opening{paths, v, columns}, well_formedness) and of
// `LinCodePCCommitment` (metadata{n_rows, n_cols, n_ext_cols}, root).

#[derive(CanonicalSerialize, CanonicalDeserialize)]
pub struct LcProofMirror<F: PrimeField, C: Config> {
    pub paths: Vec<Path<C>>,
    pub v: Vec<F>,
    pub columns: Vec<Vec<F>>,
    pub well_formedness: Option<Vec<F>>,
}
impl<F: PrimeField, C: Config> Clone for LcProofMirror<F, C> {
    fn clone(&self) -> Self {
        LcProofMirror { paths: self.paths.clone(), v: self.v.clone(), columns: self.columns.clone(), well_formedness: self.well_formedness.clone() }
    }
}
#[derive(CanonicalSerialize, CanonicalDeserialize)]
pub struct LcCommMirror<C: Config> {
    pub n_rows: usize,
    pub n_cols: usize,
    pub n_ext_cols: usize,
    pub root: C::InnerDigest,
}

pub fn to_mirror<T: CanonicalSerialize, M: CanonicalDeserialize>(x: &T) -> Option<M> {
    let mut b = vec![];
    x.serialize_compressed(&mut b).ok()?;
    M::deserialize_compressed(&b[..]).ok()
}

/// the library's proof type rebuilt from a (mutated) mirror; None if the mutation left the type's
/// canonical language (cannot happen for the mutations below)
pub fn lincode_proof_variants<F: PrimeField, C: Config, T: CanonicalSerialize + CanonicalDeserialize>(p: &T, seed: u64) -> Vec<(String, T)> {
    let Some(m): Option<Vec<LcProofMirror<F, C>>> = to_mirror(p) else { return vec![] };
    let mut out: Vec<(String, Vec<LcProofMirror<F, C>>)> = vec![];
    let mut r = stream(seed, "surgery-lc", 0);
    for i in 0..m.len().min(2) {
        let e = &m[i];
        let mut add = |name: &str, f: &dyn Fn(&mut LcProofMirror<F, C>)| {
            let mut q = m.clone();
            f(&mut q[i]);
            out.push((name.to_string(), q));
        };
        let nv = e.v.len();
        let nc = e.columns.len();
        if nv > 0 {
            let k = r.gen_range(0..nv);
            add("v[i]-replaced", &|x| x.v[k] = fe(seed, 800));
            add("v-truncated", &|x| { x.v.pop(); });
            add("v-half", &|x| x.v.truncate((nv / 2).max(0)));
        }
        add("v-extended-zero", &|x| x.v.push(F::zero()));
        add("v-extended-random", &|x| x.v.push(fe(seed, 801)));
        for kk in [2usize, 4] {
            // the p(X^k) stretch: interleave zeros
            add(&format!("v-stretched-x{kk}"), &|x| {
                let mut s = vec![F::zero(); x.v.len() * kk];
                for (j, c) in x.v.iter().enumerate() {
                    s[j * kk] = *c;
                }
                x.v = s;
            });
        }
        match &e.well_formedness {
            Some(w) => {
                add("well_formedness-absent", &|x| x.well_formedness = None);
                if !w.is_empty() {
                    add("well_formedness[i]-replaced", &|x| x.well_formedness.as_mut().unwrap()[0] = fe(seed, 802));
                    add("well_formedness-stretched-x2", &|x| {
                        let w = x.well_formedness.as_ref().unwrap();
                        let mut s = vec![F::zero(); w.len() * 2];
                        for (j, c) in w.iter().enumerate() {
                            s[j * 2] = *c;
                        }
                        x.well_formedness = Some(s);
                    });
                    add("well_formedness-truncated", &|x| { x.well_formedness.as_mut().unwrap().pop(); });
                }
            }
            None => add("well_formedness-added", &|x| x.well_formedness = Some(vec![fe(seed, 803)])),
        }
        if nc > 0 {
            let j = r.gen_range(0..nc);
            if !e.columns[j].is_empty() {
                add("columns[j][i]-replaced", &|x| x.columns[j][0] = fe(seed, 804));
            }
            add("columns-last-dropped", &|x| { x.columns.pop(); });
            add("paths-last-dropped", &|x| { x.paths.pop(); });
            if nc > 1 {
                add("columns-repeated", &|x| { let c0 = x.columns[0].clone(); x.columns[1] = c0; });
                add("columns-shifted", &|x| x.columns.rotate_left(1));
                add("paths-shifted", &|x| x.paths.rotate_left(1));
                add("columns+paths-shifted", &|x| { x.columns.rotate_left(1); x.paths.rotate_left(1); });
                add("paths-repeated", &|x| { let p0 = x.paths[0].clone(); x.paths[1] = p0; });
            }
            // one authentication path that does not reach the root, everything else authentic:
            // the nodes of another queried leaf under this leaf's index (first, seeded and last position)
            for (tag, jj) in [("first", 0usize), ("j", j), ("last", nc - 1)] {
                if let Some(k) = (0..nc).find(|&k| e.paths[k].leaf_index != e.paths[jj].leaf_index) {
                    let name = format!("paths[{tag}].nodes-replaced");
                    add(&name, &|x| { x.paths[jj].auth_path = x.paths[k].auth_path.clone(); x.paths[jj].leaf_sibling_hash = x.paths[k].leaf_sibling_hash.clone(); });
                }
            }
            add("leaf_index-changed", &|x| x.paths[j].leaf_index ^= 1);
            add("column-row-dropped", &|x| { x.columns[j].pop(); });
            add("column-row-added", &|x| x.columns[j].push(F::zero()));
        }
    }
    if m.len() > 1 {
        // authentication paths / columns of another tree (the other polynomial of this opening)
        let mut q = m.clone();
        q[0].paths = m[1].paths.clone();
        out.push(("paths-of-other-tree".to_string(), q));
        let mut q = m.clone();
        q[0].columns = m[1].columns.clone();
        out.push(("columns-of-other-matrix".to_string(), q));
        let mut q = m.clone();
        q.swap(0, 1);
        out.push(("proofs-permuted".to_string(), q));
    }
    if !m.is_empty() {
        let mut q = m.clone();
        q.pop();
        out.push(("proofs-shorter".to_string(), q));
        let mut q = m.clone();
        q.push(m[0].clone());
        out.push(("proofs-longer".to_string(), q));
    }
    out.into_iter().filter_map(|(n, q)| to_mirror::<_, T>(&q).map(|t| (n, t))).collect()
}

/// mirror of `HyraxCommitmentState { randomness, mat: Matrix { n, m, entries } }`
#[derive(CanonicalSerialize, CanonicalDeserialize)]
pub struct HyraxStateMirror<F: PrimeField> {
    pub randomness: Vec<F>,
    pub n: usize,
    pub m: usize,
    pub entries: Vec<Vec<F>>,
}

// ---------------------------------------------------------------------------------------------
// Single-element replacements of commitments and verifier keys (C10 neighbourhood).

use ark_poly_commit::{hyrax::{HyraxCommitment, HyraxVerifierKey}, marlin_pc, sonic_pc};

fn g2<E: Pairing>(seed: u64, k: u64) -> E::G2Affine {
    E::G2::rand(&mut stream(seed, "surgery-g2", k)).into_affine()
}

pub fn marlin_comm_variants<E: Pairing>(c: &marlin_pc::Commitment<E>, seed: u64) -> Vec<(String, marlin_pc::Commitment<E>)> {
    let mut out = vec![("comm-replaced".to_string(), marlin_pc::Commitment { comm: kzg10::Commitment(g1::<E>(seed, 1000)), shifted_comm: c.shifted_comm })];
    if c.shifted_comm.is_some() {
        out.push(("shifted_comm-replaced".to_string(), marlin_pc::Commitment { comm: c.comm, shifted_comm: Some(kzg10::Commitment(g1::<E>(seed, 1001))) }));
    }
    out
}
pub fn sonic_comm_variants<E: Pairing>(_c: &kzg10::Commitment<E>, seed: u64) -> Vec<(String, kzg10::Commitment<E>)> {
    vec![("comm-replaced".to_string(), kzg10::Commitment(g1::<E>(seed, 1002)))]
}
pub fn ipa_comm_variants<G: AffineRepr>(c: &ipa_pc::Commitment<G>, seed: u64) -> Vec<(String, ipa_pc::Commitment<G>)> {
    let mut out = vec![("comm-replaced".to_string(), ipa_pc::Commitment { comm: grp::<G>(seed, 1003), shifted_comm: c.shifted_comm })];
    if c.shifted_comm.is_some() {
        out.push(("shifted_comm-replaced".to_string(), ipa_pc::Commitment { comm: c.comm, shifted_comm: Some(grp::<G>(seed, 1004)) }));
    }
    out
}
pub fn hyrax_comm_variants<G: AffineRepr>(c: &HyraxCommitment<G>, seed: u64) -> Vec<(String, HyraxCommitment<G>)> {
    let mut out = vec![];
    let n = c.row_coms.len();
    for i in [0usize, n.saturating_sub(1)] {
        if i < n {
            let mut q = c.clone();
            q.row_coms[i] = grp::<G>(seed, 1010 + i as u64);
            out.push((format!("row_com[{}]-replaced", if i == 0 { "0" } else { "last" }), q));
        }
    }
    out
}
pub fn lincode_comm_variants<C: Config, T: CanonicalSerialize + CanonicalDeserialize>(c: &T, seed: u64) -> Vec<(String, T)>
where
    C::InnerDigest: CanonicalSerialize + CanonicalDeserialize,
{
    // the root is a digest: flip it by re-deserializing random bytes of the same length
    let Some(m): Option<LcCommMirror<C>> = to_mirror(c) else { return vec![] };
    let mut rb = vec![];
    if m.root.serialize_compressed(&mut rb).is_err() {
        return vec![];
    }
    let mut r = stream(seed, "surgery-root", 0);
    // keep the length prefix / structure, change the payload bytes
    let n = rb.len();
    for b in rb.iter_mut().skip(n.saturating_sub(32)) {
        *b = r.gen();
    }
    let Ok(root) = C::InnerDigest::deserialize_compressed(&rb[..]) else { return vec![] };
    let m2 = LcCommMirror::<C> { n_rows: m.n_rows, n_cols: m.n_cols, n_ext_cols: m.n_ext_cols, root };
    to_mirror::<_, T>(&m2).map(|t| vec![("root-replaced".to_string(), t)]).unwrap_or_default()
}

pub fn marlin_vk_variants<E: Pairing>(vk: &marlin_pc::VerifierKey<E>, seed: u64) -> Vec<(String, marlin_pc::VerifierKey<E>)> {
    let mut out = vec![];
    let mut q = vk.clone(); q.vk.g = g1::<E>(seed, 1100); out.push(("vk.g-replaced".to_string(), q));
    let mut q = vk.clone(); q.vk.gamma_g = g1::<E>(seed, 1101); out.push(("vk.gamma_g-replaced".to_string(), q));
    let mut q = vk.clone(); q.vk.h = g2::<E>(seed, 1102); q.vk.prepared_h = q.vk.h.into(); out.push(("vk.h-replaced".to_string(), q));
    let mut q = vk.clone(); q.vk.beta_h = g2::<E>(seed, 1103); q.vk.prepared_beta_h = q.vk.beta_h.into(); out.push(("vk.beta_h-replaced".to_string(), q));
    if let Some(l) = &vk.degree_bounds_and_shift_powers {
        for i in 0..l.len().min(2) {
            let mut q = vk.clone();
            q.degree_bounds_and_shift_powers.as_mut().unwrap()[i].1 = g1::<E>(seed, 1110 + i as u64);
            out.push(("vk.shift_power-replaced".to_string(), q));
        }
    }
    out
}
pub fn sonic_vk_variants<E: Pairing>(vk: &sonic_pc::VerifierKey<E>, seed: u64) -> Vec<(String, sonic_pc::VerifierKey<E>)> {
    let mut out = vec![];
    let mut q = vk.clone(); q.g = g1::<E>(seed, 1200); out.push(("vk.g-replaced".to_string(), q));
    let mut q = vk.clone(); q.gamma_g = g1::<E>(seed, 1201); out.push(("vk.gamma_g-replaced".to_string(), q));
    let mut q = vk.clone(); q.h = g2::<E>(seed, 1202); q.prepared_h = q.h.into(); out.push(("vk.h-replaced".to_string(), q));
    let mut q = vk.clone(); q.beta_h = g2::<E>(seed, 1203); q.prepared_beta_h = q.beta_h.into(); out.push(("vk.beta_h-replaced".to_string(), q));
    if let Some(l) = &vk.degree_bounds_and_neg_powers_of_h {
        for i in 0..l.len().min(2) {
            let mut q = vk.clone();
            q.degree_bounds_and_neg_powers_of_h.as_mut().unwrap()[i].1 = g2::<E>(seed, 1210 + i as u64);
            out.push(("vk.neg_power_of_h-replaced".to_string(), q));
        }
    }
    out
}
pub fn pst13_vk_variants<E: Pairing>(vk: &marlin_pst13_pc::VerifierKey<E>, seed: u64) -> Vec<(String, marlin_pst13_pc::VerifierKey<E>)> {
    let mut out = vec![];
    let mut q = vk.clone(); q.g = g1::<E>(seed, 1300); out.push(("vk.g-replaced".to_string(), q));
    let mut q = vk.clone(); q.gamma_g = g1::<E>(seed, 1301); out.push(("vk.gamma_g-replaced".to_string(), q));
    let mut q = vk.clone(); q.h = g2::<E>(seed, 1302); q.prepared_h = q.h.into(); out.push(("vk.h-replaced".to_string(), q));
    for j in 0..vk.beta_h.len().min(3) {
        let mut q = vk.clone();
        q.beta_h[j] = g2::<E>(seed, 1310 + j as u64);
        q.prepared_beta_h[j] = q.beta_h[j].into();
        out.push(("vk.beta_h[j]-replaced".to_string(), q));
    }
    out
}
pub fn ipa_vk_variants<G: AffineRepr>(vk: &ipa_pc::VerifierKey<G>, seed: u64) -> Vec<(String, ipa_pc::VerifierKey<G>)> {
    let mut out = vec![];
    let n = vk.comm_key.len();
    for i in [0usize, n / 2, n - 1] {
        let mut q = vk.clone();
        q.comm_key[i] = grp::<G>(seed, 1400 + i as u64);
        out.push(("vk.comm_key[i]-replaced".to_string(), q));
    }
    let mut q = vk.clone(); q.h = grp::<G>(seed, 1450); out.push(("vk.h-replaced".to_string(), q));
    let mut q = vk.clone(); q.s = grp::<G>(seed, 1451); out.push(("vk.s-replaced".to_string(), q));
    out
}
pub fn hyrax_vk_variants<G: AffineRepr>(vk: &HyraxVerifierKey<G>, seed: u64) -> Vec<(String, HyraxVerifierKey<G>)> {
    let mut out = vec![];
    let n = vk.com_key.len();
    for i in [0usize, n - 1] {
        let mut q = vk.clone();
        q.com_key[i] = grp::<G>(seed, 1500 + i as u64);
        out.push(("vk.com_key[i]-replaced".to_string(), q));
    }
    let mut q = vk.clone(); q.h = grp::<G>(seed, 1550); out.push(("vk.h-replaced".to_string(), q));
    out
}

pub fn kzg_vk_variants<E: Pairing>(vk: &kzg10::VerifierKey<E>, seed: u64) -> Vec<(String, kzg10::VerifierKey<E>)> {
    let mut out = vec![];
    let mut q = vk.clone(); q.g = g1::<E>(seed, 1600); out.push(("vk.g-replaced".to_string(), q));
    let mut q = vk.clone(); q.gamma_g = g1::<E>(seed, 1601); out.push(("vk.gamma_g-replaced".to_string(), q));
    let mut q = vk.clone(); q.h = g2::<E>(seed, 1602); q.prepared_h = q.h.into(); out.push(("vk.h-replaced".to_string(), q));
    let mut q = vk.clone(); q.beta_h = g2::<E>(seed, 1603); q.prepared_beta_h = q.beta_h.into(); out.push(("vk.beta_h-replaced".to_string(), q));
    out
}
use ark_poly_commit::multilinear_pc::data_structures as mlds;
pub fn mlpc_proof_variants<E: Pairing>(p: &Vec<mlds::Proof<E>>, seed: u64) -> Vec<(String, Vec<mlds::Proof<E>>)> {
    let mut out = vec![];
    for i in 0..p.len().min(2) {
        for j in 0..p[i].proofs.len().min(3) {
            let mut q = p.clone();
            q[i].proofs[j] = g2::<E>(seed, 1700 + (i * 8 + j) as u64);
            out.push(("proofs[j]-replaced".to_string(), q));
        }
        let mut q = p.clone();
        q[i].proofs.pop();
        out.push(("witnesses-shorter".to_string(), q));
        let mut q = p.clone();
        q[i].proofs.push(g2::<E>(seed, 1790));
        out.push(("witnesses-longer".to_string(), q));
        // identity padding: every pairing factor these elements take part in is trivial
        use ark_ec::AffineRepr;
        let n = p[i].proofs.len();
        for (name, len) in [("witnesses-all-identity", n), ("witnesses-all-identity-longer", n + 1), ("witnesses-all-identity-shorter", n.saturating_sub(1))] {
            let mut q = p.clone();
            q[i].proofs = vec![E::G2Affine::zero(); len];
            out.push((name.to_string(), q));
        }
        let mut q = p.clone();
        q[i].proofs.push(E::G2Affine::zero());
        out.push(("witnesses-longer-identity".to_string(), q));
    }
    if !p.is_empty() {
        let mut q = p.clone();
        q.pop();
        out.push(("proofs-shorter".to_string(), q));
        let mut q = p.clone();
        q.push(p[0].clone());
        out.push(("proofs-longer".to_string(), q));
    }
    out
}
pub fn mlpc_comm_variants<E: Pairing>(c: &crate::adapters::MlComm<E>, seed: u64) -> Vec<(String, crate::adapters::MlComm<E>)> {
    vec![("g_product-replaced".to_string(), crate::adapters::MlComm(mlds::Commitment { nv: c.0.nv, g_product: g1::<E>(seed, 1800) }))]
}
pub fn mlpc_vk_variants<E: Pairing>(vk: &crate::adapters::MlVk<E>, seed: u64) -> Vec<(String, crate::adapters::MlVk<E>)> {
    let mut out = vec![];
    let mut q = vk.clone(); q.0.g = g1::<E>(seed, 1900); out.push(("vk.g-replaced".to_string(), q));
    let mut q = vk.clone(); q.0.h = g2::<E>(seed, 1901); out.push(("vk.h-replaced".to_string(), q));
    for i in 0..vk.0.g_mask_random.len().min(3) {
        let mut q = vk.clone();
        q.0.g_mask_random[i] = g1::<E>(seed, 1910 + i as u64);
        out.push(("vk.g_mask_random[i]-replaced".to_string(), q));
    }
    out
}
