//! Deterministic single-threaded stand-in for rayon: every "parallel" job order,
//! split point and reduction tree is decided by one seeded PRNG.
use std::cell::RefCell;

pub mod sim {
    use super::*;
    #[derive(Clone, Debug, Default)]
    pub struct Stats { pub terminals: u64, pub jobs: u64, pub joins: u64, pub nontrivial_perms: u64, pub splits: u64, pub swapped_joins: u64, /// running hash of every scheduling decision taken (permutations, cuts, join orders)
        pub fingerprint: u64 }
    pub(crate) struct Sched { pub state: u64, pub threads: usize, pub identity: bool, pub stats: Stats }
    thread_local! { pub(crate) static SCHED: RefCell<Sched> = RefCell::new(Sched{state:0x9E3779B97F4A7C15, threads:1, identity:true, stats:Stats::default()}); }
    pub fn configure(seed: u64, threads: usize, identity: bool) { SCHED.with(|s| { let mut s=s.borrow_mut(); s.state=seed ^ 0x9E3779B97F4A7C15; s.threads=threads.max(1); s.identity=identity; s.stats=Stats::default(); }) }
    pub fn stats() -> Stats { SCHED.with(|s| s.borrow().stats.clone()) }
    pub(crate) fn next() -> u64 { SCHED.with(|s| { let mut s=s.borrow_mut(); s.state=s.state.wrapping_add(0x9E3779B97F4A7C15); let mut z=s.state; z=(z^(z>>30)).wrapping_mul(0xBF58476D1CE4E5B9); z=(z^(z>>27)).wrapping_mul(0x94D049BB133111EB); z^(z>>31) }) }
    pub(crate) fn fold(x: u64) { SCHED.with(|s| { let mut s=s.borrow_mut(); let f=&mut s.stats.fingerprint; *f = (*f ^ x).wrapping_mul(0x100000001B3).rotate_left(17); }) }
    pub(crate) fn below(n: usize) -> usize { if n<=1 {0} else { (next() % n as u64) as usize } }
    pub(crate) fn perm(n: usize) -> Vec<usize> {
        let mut p: Vec<usize> = (0..n).collect();
        let ident = SCHED.with(|s| { let mut s=s.borrow_mut(); s.stats.terminals+=1; s.stats.jobs+=n as u64; s.identity });
        if !ident { for i in (1..n).rev() { let j=below(i+1); p.swap(i,j); } if p.iter().enumerate().any(|(i,&x)| i!=x) { SCHED.with(|s| s.borrow_mut().stats.nontrivial_perms+=1); for (i,&x) in p.iter().enumerate() { fold(((i as u64)<<32) ^ x as u64); } } }
        p
    }
    /// contiguous split of 0..n into k>=1 chunks
    pub(crate) fn cuts(n: usize) -> Vec<(usize,usize)> {
        let ident = SCHED.with(|s| s.borrow().identity);
        if n==0 { return vec![]; }
        if ident { return vec![(0,n)]; }
        let k = 1 + below(n.min(SCHED.with(|s| s.borrow().threads*2)));
        let mut pts: Vec<usize> = (0..k-1).map(|_| 1+below(n-1+ (n==1) as usize)).collect(); pts.push(0); pts.push(n); pts.sort(); pts.dedup();
        SCHED.with(|s| s.borrow_mut().stats.splits += (pts.len()-1) as u64);
        for &c in &pts { fold(0xC0 ^ ((c as u64) << 8)); }
        pts.windows(2).map(|w| (w[0],w[1])).collect()
    }
}

pub fn current_num_threads() -> usize { sim::SCHED.with(|s| s.borrow().threads) }

pub fn join<A, B, RA, RB>(a: A, b: B) -> (RA, RB) where A: FnOnce() -> RA, B: FnOnce() -> RB {
    let ident = sim::SCHED.with(|s| { let mut s=s.borrow_mut(); s.stats.joins+=1; s.identity });
    if ident || sim::below(2)==0 { let ra=a(); let rb=b(); (ra,rb) } else { sim::SCHED.with(|s| s.borrow_mut().stats.swapped_joins+=1); sim::fold(0x10117); let rb=b(); let ra=a(); (ra,rb) }
}

pub mod iter {
    use super::sim;
    pub type Thunk<'a, T> = Box<dyn FnOnce() -> T + 'a>;
    /// Indexed: exactly one item per job.
    pub struct Par<'a, T> { pub(crate) jobs: Vec<Thunk<'a, T>> }
    /// Unindexed: a job yields 0..n items (after filter / flat_map / fold).
    pub struct ParMulti<'a, T> { pub(crate) jobs: Vec<Thunk<'a, Vec<T>>> }

    fn run_all<'a, T>(jobs: Vec<Thunk<'a, T>>) -> Vec<T> {
        let n = jobs.len();
        let order = sim::perm(n);
        let mut jobs: Vec<Option<Thunk<'a, T>>> = jobs.into_iter().map(Some).collect();
        let mut out: Vec<Option<T>> = (0..n).map(|_| None).collect();
        for i in order { out[i] = Some((jobs[i].take().unwrap())()); }
        out.into_iter().map(|x| x.unwrap()).collect()
    }

    /// rayon's private `Try` (Option / Result / ControlFlow-like short-circuiting)
    pub trait Try: Sized { type Output; fn branch(self) -> Result<Self::Output, Self>; fn from_output(o: Self::Output) -> Self; }
    impl<T> Try for Option<T> { type Output = T; fn branch(self) -> Result<T, Self> { match self { Some(x) => Ok(x), None => Err(None) } } fn from_output(o: T) -> Self { Some(o) } }
    impl<T, E> Try for Result<T, E> { type Output = T; fn branch(self) -> Result<T, Self> { match self { Ok(x) => Ok(x), Err(e) => Err(Err(e)) } } fn from_output(o: T) -> Self { Ok(o) } }
    #[derive(Clone, Copy, Debug, PartialEq, Eq)]
    pub enum Either<L, R> { Left(L), Right(R) }

    pub trait ParallelIterator<'a>: Sized {
        type Item: 'a;
        fn into_multi(self) -> ParMulti<'a, Self::Item>;

        fn for_each<F>(self, f: F) where F: Fn(Self::Item) + 'a {
            let jobs = self.into_multi().jobs; let f=&f;
            let jobs: Vec<Thunk<'_, ()>> = jobs.into_iter().map(|j| Box::new(move || { for x in j() { f(x) } }) as Thunk<'_, ()>).collect();
            run_all(jobs);
        }
        fn try_for_each<F, R>(self, f: F) -> R where F: Fn(Self::Item) -> R + 'a, R: Try<Output = ()> {
            let jobs = self.into_multi().jobs; let n=jobs.len(); let order=sim::perm(n);
            let mut jobs: Vec<Option<Thunk<'a, Vec<Self::Item>>>> = jobs.into_iter().map(Some).collect();
            for i in order { for x in (jobs[i].take().unwrap())() { if let Err(e) = f(x).branch() { return e; } } }
            R::from_output(())
        }
        fn map<F, R: 'a>(self, f: F) -> ParMulti<'a, R> where F: Fn(Self::Item) -> R + 'a { unimplemented_shape(self, f) }
        fn filter<P>(self, p: P) -> ParMulti<'a, Self::Item> where P: Fn(&Self::Item) -> bool + 'a {
            let p = std::rc::Rc::new(p);
            ParMulti { jobs: self.into_multi().jobs.into_iter().map(|j| { let p=p.clone(); Box::new(move || j().into_iter().filter(|x| p(x)).collect()) as Thunk<'a, Vec<Self::Item>> }).collect() }
        }
        fn flat_map<F, PI>(self, f: F) -> ParMulti<'a, PI::Item> where F: Fn(Self::Item) -> PI + 'a, PI: IntoParallelIterator<'a> {
            let f = std::rc::Rc::new(f);
            ParMulti { jobs: self.into_multi().jobs.into_iter().map(|j| { let f=f.clone(); Box::new(move || { let mut out=Vec::new(); for x in j() { out.extend(collect_vec(f(x).into_par_iter())); } out }) as Thunk<'a, Vec<PI::Item>> }).collect() }
        }
        fn flat_map_iter<F, SI>(self, f: F) -> ParMulti<'a, SI::Item> where F: Fn(Self::Item) -> SI + 'a, SI: IntoIterator, SI::Item: 'a {
            let f = std::rc::Rc::new(f);
            ParMulti { jobs: self.into_multi().jobs.into_iter().map(|j| { let f=f.clone(); Box::new(move || { let mut out=Vec::new(); for x in j() { out.extend(f(x)); } out }) as Thunk<'a, Vec<SI::Item>> }).collect() }
        }
        fn chain<C>(self, other: C) -> ParMulti<'a, Self::Item> where C: IntoParallelIterator<'a, Item = Self::Item> {
            let mut jobs = self.into_multi().jobs; jobs.extend(other.into_par_iter().into_multi().jobs); ParMulti { jobs }
        }
        fn collect<C>(self) -> C where C: FromIterator<Self::Item> { collect_vec(self).into_iter().collect() }
        fn unzip<A, B, FA, FB>(self) -> (FA, FB) where Self: ParallelIterator<'a, Item = (A, B)>, FA: Default + Extend<A>, FB: Default + Extend<B> {
            collect_vec(self).into_iter().unzip()
        }
        fn count(self) -> usize { collect_vec(self).len() }
        fn sum<S>(self) -> S where S: std::iter::Sum<Self::Item> + std::iter::Sum<S> {
            let items = collect_vec(self); let n=items.len(); let cuts=sim::cuts(n);
            let mut it = items.into_iter(); let mut partials=Vec::new();
            for (a,b) in cuts { partials.push(it.by_ref().take(b-a).sum::<S>()); }
            partials.into_iter().sum()
        }
        fn product<S>(self) -> S where S: std::iter::Product<Self::Item> + std::iter::Product<S> {
            let items = collect_vec(self); let n=items.len(); let cuts=sim::cuts(n);
            let mut it = items.into_iter(); let mut partials=Vec::new();
            for (a,b) in cuts { partials.push(it.by_ref().take(b-a).product::<S>()); }
            partials.into_iter().product()
        }
        fn reduce<OP, ID>(self, identity: ID, op: OP) -> Self::Item where OP: Fn(Self::Item, Self::Item) -> Self::Item, ID: Fn() -> Self::Item {
            let items = collect_vec(self); let n=items.len(); let cuts=sim::cuts(n);
            let mut it = items.into_iter(); let mut acc = identity();
            for (a,b) in cuts { let mut part = identity(); for x in it.by_ref().take(b-a) { part = op(part, x); } acc = op(acc, part); }
            acc
        }
        fn filter_map<P, R: 'a>(self, p: P) -> ParMulti<'a, R> where P: Fn(Self::Item) -> Option<R> + 'a {
            let p = std::rc::Rc::new(p);
            ParMulti { jobs: self.into_multi().jobs.into_iter().map(|j| { let p=p.clone(); Box::new(move || j().into_iter().filter_map(|x| p(x)).collect()) as Thunk<'a, Vec<R>> }).collect() }
        }
        fn inspect<F>(self, f: F) -> ParMulti<'a, Self::Item> where F: Fn(&Self::Item) + 'a {
            let f = std::rc::Rc::new(f);
            ParMulti { jobs: self.into_multi().jobs.into_iter().map(|j| { let f=f.clone(); Box::new(move || { let v = j(); for x in &v { f(x) } v }) as Thunk<'a, Vec<Self::Item>> }).collect() }
        }
        fn flatten(self) -> ParMulti<'a, <Self::Item as IntoParallelIterator<'a>>::Item> where Self::Item: IntoParallelIterator<'a> {
            ParMulti { jobs: self.into_multi().jobs.into_iter().map(|j| Box::new(move || { let mut out=Vec::new(); for x in j() { out.extend(collect_vec(x.into_par_iter())); } out }) as Thunk<'a, Vec<_>>).collect() }
        }
        fn flatten_iter(self) -> ParMulti<'a, <Self::Item as IntoIterator>::Item> where Self::Item: IntoIterator, <Self::Item as IntoIterator>::Item: 'a {
            ParMulti { jobs: self.into_multi().jobs.into_iter().map(|j| Box::new(move || { let mut out=Vec::new(); for x in j() { out.extend(x); } out }) as Thunk<'a, Vec<_>>).collect() }
        }
        fn map_with<T: Clone + 'a, F, R: 'a>(self, init: T, f: F) -> ParMulti<'a, R> where F: Fn(&mut T, Self::Item) -> R + 'a {
            let f = std::rc::Rc::new(f);
            ParMulti { jobs: self.into_multi().jobs.into_iter().map(|j| { let f=f.clone(); let mut st=init.clone(); Box::new(move || j().into_iter().map(|x| f(&mut st, x)).collect()) as Thunk<'a, Vec<R>> }).collect() }
        }
        fn for_each_with<T: Clone + 'a, F>(self, init: T, f: F) where F: Fn(&mut T, Self::Item) + 'a {
            let f=&f;
            let jobs: Vec<Thunk<'_, ()>> = self.into_multi().jobs.into_iter().map(|j| { let mut st=init.clone(); Box::new(move || { for x in j() { f(&mut st, x) } }) as Thunk<'_, ()> }).collect();
            run_all(jobs);
        }
        /// rayon's `skip_any_while`: items are visited in *schedule* order; those for which the predicate
        /// holds are dropped until the first visited item fails it (NOT a parallel `skip_while`)
        fn skip_any_while<P>(self, p: P) -> ParMulti<'a, Self::Item> where P: Fn(&Self::Item) -> bool + 'a {
            let jobs = self.into_multi().jobs; let n=jobs.len(); let order=sim::perm(n);
            let mut jobs: Vec<Option<Thunk<'a, Vec<Self::Item>>>> = jobs.into_iter().map(Some).collect();
            let mut kept: Vec<Vec<Self::Item>> = (0..n).map(|_| Vec::new()).collect();
            let mut done = false;
            for i in order { for x in (jobs[i].take().unwrap())() { if !done && p(&x) { continue; } done = true; kept[i].push(x); } }
            ParMulti { jobs: kept.into_iter().map(|v| Box::new(move || v) as Thunk<'a, Vec<Self::Item>>).collect() }
        }
        /// rayon's `take_any_while`: items are visited in schedule order and kept until the first visited item fails the predicate
        fn take_any_while<P>(self, p: P) -> ParMulti<'a, Self::Item> where P: Fn(&Self::Item) -> bool + 'a {
            let jobs = self.into_multi().jobs; let n=jobs.len(); let order=sim::perm(n);
            let mut jobs: Vec<Option<Thunk<'a, Vec<Self::Item>>>> = jobs.into_iter().map(Some).collect();
            let mut kept: Vec<Vec<Self::Item>> = (0..n).map(|_| Vec::new()).collect();
            let mut done = false;
            for i in order { for x in (jobs[i].take().unwrap())() { if done || !p(&x) { done = true; continue; } kept[i].push(x); } }
            ParMulti { jobs: kept.into_iter().map(|v| Box::new(move || v) as Thunk<'a, Vec<Self::Item>>).collect() }
        }
        fn take_any(self, k: usize) -> ParMulti<'a, Self::Item> {
            let jobs = self.into_multi().jobs; let n=jobs.len(); let order=sim::perm(n);
            let mut jobs: Vec<Option<Thunk<'a, Vec<Self::Item>>>> = jobs.into_iter().map(Some).collect();
            let mut kept: Vec<Vec<Self::Item>> = (0..n).map(|_| Vec::new()).collect();
            let mut c = 0;
            for i in order { for x in (jobs[i].take().unwrap())() { if c < k { kept[i].push(x); c += 1; } } }
            ParMulti { jobs: kept.into_iter().map(|v| Box::new(move || v) as Thunk<'a, Vec<Self::Item>>).collect() }
        }
        fn skip_any(self, k: usize) -> ParMulti<'a, Self::Item> {
            let jobs = self.into_multi().jobs; let n=jobs.len(); let order=sim::perm(n);
            let mut jobs: Vec<Option<Thunk<'a, Vec<Self::Item>>>> = jobs.into_iter().map(Some).collect();
            let mut kept: Vec<Vec<Self::Item>> = (0..n).map(|_| Vec::new()).collect();
            let mut c = 0;
            for i in order { for x in (jobs[i].take().unwrap())() { if c < k { c += 1; } else { kept[i].push(x); } } }
            ParMulti { jobs: kept.into_iter().map(|v| Box::new(move || v) as Thunk<'a, Vec<Self::Item>>).collect() }
        }
        fn while_some<T: 'a>(self) -> ParMulti<'a, T> where Self: ParallelIterator<'a, Item = Option<T>> {
            let jobs = self.into_multi().jobs; let n=jobs.len(); let order=sim::perm(n);
            let mut jobs: Vec<Option<Thunk<'a, Vec<Option<T>>>>> = jobs.into_iter().map(Some).collect();
            let mut kept: Vec<Vec<T>> = (0..n).map(|_| Vec::new()).collect();
            let mut done = false;
            for i in order { for x in (jobs[i].take().unwrap())() { match x { Some(v) if !done => kept[i].push(v), _ => done = true } } }
            ParMulti { jobs: kept.into_iter().map(|v| Box::new(move || v) as Thunk<'a, Vec<T>>).collect() }
        }
        fn panic_fuse(self) -> ParMulti<'a, Self::Item> { self.into_multi() }
        fn map_init<INIT, T: 'a, F, R: 'a>(self, init: INIT, f: F) -> ParMulti<'a, R> where INIT: Fn() -> T + 'a, F: Fn(&mut T, Self::Item) -> R + 'a {
            let f = std::rc::Rc::new(f); let init = std::rc::Rc::new(init);
            ParMulti { jobs: self.into_multi().jobs.into_iter().map(|j| { let f=f.clone(); let init=init.clone(); Box::new(move || { let mut st = init(); j().into_iter().map(|x| f(&mut st, x)).collect() }) as Thunk<'a, Vec<R>> }).collect() }
        }
        fn for_each_init<INIT, T, F>(self, init: INIT, f: F) where INIT: Fn() -> T + 'a, F: Fn(&mut T, Self::Item) + 'a {
            let (f, init) = (&f, &init);
            let jobs: Vec<Thunk<'_, ()>> = self.into_multi().jobs.into_iter().map(|j| Box::new(move || { let mut st = init(); for x in j() { f(&mut st, x) } }) as Thunk<'_, ()>).collect();
            run_all(jobs);
        }
        fn try_for_each_with<T: Clone + 'a, F, R>(self, init: T, f: F) -> R where F: Fn(&mut T, Self::Item) -> R + 'a, R: Try<Output = ()> {
            let jobs = self.into_multi().jobs; let n=jobs.len(); let order=sim::perm(n);
            let mut jobs: Vec<Option<Thunk<'a, Vec<Self::Item>>>> = jobs.into_iter().map(Some).collect();
            for i in order { let mut st = init.clone(); for x in (jobs[i].take().unwrap())() { if let Err(e) = f(&mut st, x).branch() { return e; } } }
            R::from_output(())
        }
        fn try_for_each_init<INIT, T, F, R>(self, init: INIT, f: F) -> R where INIT: Fn() -> T + 'a, F: Fn(&mut T, Self::Item) -> R + 'a, R: Try<Output = ()> {
            let jobs = self.into_multi().jobs; let n=jobs.len(); let order=sim::perm(n);
            let mut jobs: Vec<Option<Thunk<'a, Vec<Self::Item>>>> = jobs.into_iter().map(Some).collect();
            for i in order { let mut st = init(); for x in (jobs[i].take().unwrap())() { if let Err(e) = f(&mut st, x).branch() { return e; } } }
            R::from_output(())
        }
        fn update<F>(self, f: F) -> ParMulti<'a, Self::Item> where F: Fn(&mut Self::Item) + 'a {
            let f = std::rc::Rc::new(f);
            ParMulti { jobs: self.into_multi().jobs.into_iter().map(|j| { let f=f.clone(); Box::new(move || { let mut v = j(); for x in v.iter_mut() { f(x) } v }) as Thunk<'a, Vec<Self::Item>> }).collect() }
        }
        fn fold_with<T: Clone + 'a, F>(self, init: T, fold_op: F) -> ParMulti<'a, T> where F: Fn(T, Self::Item) -> T + 'a {
            self.fold(move || init.clone(), fold_op)
        }
        /// per-chunk short-circuiting fold: one `R` per seeded chunk
        fn try_fold<T: 'a, R: 'a, ID, F>(self, identity: ID, fold_op: F) -> ParMulti<'a, R> where F: Fn(T, Self::Item) -> R + 'a, ID: Fn() -> T + 'a, R: Try<Output = T> {
            let items = collect_vec(self); let n=items.len(); let cuts=sim::cuts(n);
            let mut it = items.into_iter(); let mut parts: Vec<R> = Vec::new();
            for (a,b) in cuts { let mut acc=Some(identity()); let mut failed: Option<R> = None; for x in it.by_ref().take(b-a) { if failed.is_some() { continue; } match fold_op(acc.take().unwrap(), x).branch() { Ok(v) => acc = Some(v), Err(e) => failed = Some(e) } } parts.push(match failed { Some(e) => e, None => R::from_output(acc.unwrap()) }); }
            ParMulti { jobs: parts.into_iter().map(|p| Box::new(move || vec![p]) as Thunk<'a, Vec<R>>).collect() }
        }
        fn try_fold_with<T: Clone + 'a, R: 'a, F>(self, init: T, fold_op: F) -> ParMulti<'a, R> where F: Fn(T, Self::Item) -> R + 'a, R: Try<Output = T> {
            self.try_fold(move || init.clone(), fold_op)
        }
        fn try_reduce_with<T, OP>(self, op: OP) -> Option<Self::Item> where OP: Fn(T, T) -> Self::Item, Self::Item: Try<Output = T> {
            let mut acc: Option<T> = None;
            for x in collect_vec(self) { match x.branch() { Err(e) => return Some(e), Ok(v) => { acc = Some(match acc { None => v, Some(a) => match op(a, v).branch() { Ok(r) => r, Err(e) => return Some(e) } }); } } }
            acc.map(Self::Item::from_output)
        }
        fn find_last<P>(self, p: P) -> Option<Self::Item> where P: Fn(&Self::Item) -> bool + 'a { collect_vec(self).into_iter().rev().find(|x| p(x)) }
        fn find_map_first<P, R>(self, p: P) -> Option<R> where P: Fn(Self::Item) -> Option<R> + 'a { collect_vec(self).into_iter().find_map(|x| p(x)) }
        fn find_map_last<P, R>(self, p: P) -> Option<R> where P: Fn(Self::Item) -> Option<R> + 'a { collect_vec(self).into_iter().rev().find_map(|x| p(x)) }
        fn partition_map<A, B, P, L, R>(self, p: P) -> (A, B) where A: Default + Extend<L>, B: Default + Extend<R>, P: Fn(Self::Item) -> Either<L, R> + 'a {
            let (mut a, mut b) = (A::default(), B::default());
            for x in collect_vec(self) { match p(x) { Either::Left(l) => a.extend(std::iter::once(l)), Either::Right(r) => b.extend(std::iter::once(r)) } }
            (a, b)
        }
        fn intersperse(self, element: Self::Item) -> ParMulti<'a, Self::Item> where Self::Item: Clone {
            let v = collect_vec(self); let mut out = Vec::with_capacity(v.len() * 2);
            for (i, x) in v.into_iter().enumerate() { if i > 0 { out.push(element.clone()); } out.push(x); }
            from_iter(out).into_multi()
        }
        fn collect_vec_list(self) -> std::collections::LinkedList<Vec<Self::Item>> {
            let items = collect_vec(self); let n=items.len(); let cuts=sim::cuts(n); let mut it = items.into_iter();
            cuts.into_iter().map(|(a,b)| it.by_ref().take(b-a).collect::<Vec<_>>()).collect()
        }
        fn opt_len(&self) -> Option<usize> { None }
        /// some element satisfying the predicate: the first one in *schedule* order
        fn find_any<P>(self, p: P) -> Option<Self::Item> where P: Fn(&Self::Item) -> bool + 'a {
            let jobs = self.into_multi().jobs; let n=jobs.len(); let order=sim::perm(n);
            let mut jobs: Vec<Option<Thunk<'a, Vec<Self::Item>>>> = jobs.into_iter().map(Some).collect();
            for i in order { for x in (jobs[i].take().unwrap())() { if p(&x) { return Some(x); } } }
            None
        }
        fn find_first<P>(self, p: P) -> Option<Self::Item> where P: Fn(&Self::Item) -> bool + 'a { collect_vec(self).into_iter().find(|x| p(x)) }
        fn find_map_any<P, R>(self, p: P) -> Option<R> where P: Fn(Self::Item) -> Option<R> + 'a {
            let jobs = self.into_multi().jobs; let n=jobs.len(); let order=sim::perm(n);
            let mut jobs: Vec<Option<Thunk<'a, Vec<Self::Item>>>> = jobs.into_iter().map(Some).collect();
            for i in order { for x in (jobs[i].take().unwrap())() { if let Some(r) = p(x) { return Some(r); } } }
            None
        }
        fn any<P>(self, p: P) -> bool where P: Fn(Self::Item) -> bool + 'a { collect_vec(self).into_iter().any(|x| p(x)) }
        fn all<P>(self, p: P) -> bool where P: Fn(Self::Item) -> bool + 'a { collect_vec(self).into_iter().all(|x| p(x)) }
        fn min(self) -> Option<Self::Item> where Self::Item: Ord { collect_vec(self).into_iter().min() }
        fn max(self) -> Option<Self::Item> where Self::Item: Ord { collect_vec(self).into_iter().max() }
        fn min_by_key<K: Ord, F>(self, f: F) -> Option<Self::Item> where F: Fn(&Self::Item) -> K + 'a { collect_vec(self).into_iter().min_by_key(|x| f(x)) }
        fn max_by_key<K: Ord, F>(self, f: F) -> Option<Self::Item> where F: Fn(&Self::Item) -> K + 'a { collect_vec(self).into_iter().max_by_key(|x| f(x)) }
        fn min_by<F>(self, f: F) -> Option<Self::Item> where F: Fn(&Self::Item, &Self::Item) -> std::cmp::Ordering + 'a { collect_vec(self).into_iter().min_by(|a, b| f(a, b)) }
        fn max_by<F>(self, f: F) -> Option<Self::Item> where F: Fn(&Self::Item, &Self::Item) -> std::cmp::Ordering + 'a { collect_vec(self).into_iter().max_by(|a, b| f(a, b)) }
        fn reduce_with<OP>(self, op: OP) -> Option<Self::Item> where OP: Fn(Self::Item, Self::Item) -> Self::Item {
            let items = collect_vec(self); let n=items.len(); if n==0 { return None; } let cuts=sim::cuts(n);
            let mut it = items.into_iter(); let mut acc: Option<Self::Item> = None;
            for (a,b) in cuts { let mut part: Option<Self::Item> = None; for x in it.by_ref().take(b-a) { part = Some(match part { None => x, Some(p) => op(p, x) }); } if let Some(p) = part { acc = Some(match acc { None => p, Some(q) => op(q, p) }); } }
            acc
        }
        fn try_reduce<T, OP, ID>(self, identity: ID, op: OP) -> Self::Item where OP: Fn(T, T) -> Self::Item, ID: Fn() -> T, Self::Item: Try<Output = T> {
            let mut acc = identity();
            for x in collect_vec(self) { match x.branch() { Err(e) => return e, Ok(v) => match op(acc, v).branch() { Ok(r) => acc = r, Err(e) => return e } } }
            Self::Item::from_output(acc)
        }
        fn partition<A, B, P>(self, p: P) -> (A, B) where A: Default + Extend<Self::Item>, B: Default + Extend<Self::Item>, P: Fn(&Self::Item) -> bool + 'a {
            let (mut a, mut b) = (A::default(), B::default());
            for x in collect_vec(self) { if p(&x) { a.extend(std::iter::once(x)) } else { b.extend(std::iter::once(x)) } }
            (a, b)
        }
        fn fold<T: 'a, ID, F>(self, identity: ID, fold_op: F) -> ParMulti<'a, T> where F: Fn(T, Self::Item) -> T + 'a, ID: Fn() -> T + 'a {
            let items = collect_vec(self); let n=items.len(); let cuts=sim::cuts(n);
            let mut it = items.into_iter(); let mut parts=Vec::new();
            for (a,b) in cuts { let mut acc=identity(); for x in it.by_ref().take(b-a) { acc=fold_op(acc,x); } parts.push(acc); }
            ParMulti { jobs: parts.into_iter().map(|p| Box::new(move || vec![p]) as Thunk<'a, Vec<T>>).collect() }
        }
    }
    impl<'a, T: 'a + Clone> Par<'a, &'a T> {
        pub fn cloned(self) -> Par<'a, T> { self.map(|x: &T| x.clone()) }
    }
    impl<'a, T: 'a + Copy> Par<'a, &'a T> {
        pub fn copied(self) -> Par<'a, T> { self.map(|x: &T| *x) }
    }
    fn unimplemented_shape<'a, I: ParallelIterator<'a>, F, R: 'a>(it: I, f: F) -> ParMulti<'a, R> where F: Fn(I::Item) -> R + 'a {
        let f = std::rc::Rc::new(f);
        ParMulti { jobs: it.into_multi().jobs.into_iter().map(|j| { let f=f.clone(); Box::new(move || j().into_iter().map(|x| f(x)).collect()) as Thunk<'a, Vec<R>> }).collect() }
    }
    pub(crate) fn collect_vec<'a, I: ParallelIterator<'a>>(it: I) -> Vec<I::Item> { run_all(it.into_multi().jobs).into_iter().flatten().collect() }

    impl<'a, T: 'a> ParallelIterator<'a> for ParMulti<'a, T> { type Item = T; fn into_multi(self) -> ParMulti<'a, T> { self } }
    impl<'a, T: 'a> ParallelIterator<'a> for Par<'a, T> {
        type Item = T;
        fn into_multi(self) -> ParMulti<'a, T> { ParMulti { jobs: self.jobs.into_iter().map(|j| Box::new(move || vec![j()]) as Thunk<'a, Vec<T>>).collect() } }
    }

    pub trait IndexedParallelIterator<'a>: ParallelIterator<'a> {
        fn into_par(self) -> Par<'a, Self::Item>;
        fn with_min_len(self, _n: usize) -> Par<'a, Self::Item> { self.into_par() }
        fn with_max_len(self, _n: usize) -> Par<'a, Self::Item> { self.into_par() }
        fn enumerate(self) -> Par<'a, (usize, Self::Item)> { Par { jobs: self.into_par().jobs.into_iter().enumerate().map(|(i,j)| Box::new(move || (i, j())) as Thunk<'a, (usize, Self::Item)>).collect() } }
        fn zip<Z>(self, other: Z) -> Par<'a, (Self::Item, <Z::Iter as ParallelIterator<'a>>::Item)> where Z: IntoParallelIterator<'a>, Z::Iter: IndexedParallelIterator<'a> {
            Par { jobs: self.into_par().jobs.into_iter().zip(other.into_par_iter().into_par().jobs).map(|(a,b)| Box::new(move || (a(), b())) as Thunk<'a, _>).collect() }
        }
        fn zip_eq<Z>(self, other: Z) -> Par<'a, (Self::Item, <Z::Iter as ParallelIterator<'a>>::Item)> where Z: IntoParallelIterator<'a>, Z::Iter: IndexedParallelIterator<'a> {
            let a = self.into_par().jobs; let b = other.into_par_iter().into_par().jobs;
            assert_eq!(a.len(), b.len(), "iterators must have the same length");
            Par { jobs: a.into_iter().zip(b).map(|(a,b)| Box::new(move || (a(), b())) as Thunk<'a, _>).collect() }
        }
        fn collect_into_vec(self, target: &mut Vec<Self::Item>) { *target = collect_vec(self.into_par()); }
        fn position_any<P>(self, p: P) -> Option<usize> where P: Fn(Self::Item) -> bool + 'a {
            let jobs = self.into_par().jobs; let n=jobs.len(); let order=sim::perm(n);
            let mut jobs: Vec<Option<Thunk<'a, Self::Item>>> = jobs.into_iter().map(Some).collect();
            for i in order { if p((jobs[i].take().unwrap())()) { return Some(i); } }
            None
        }
        fn position_first<P>(self, p: P) -> Option<usize> where P: Fn(Self::Item) -> bool + 'a { collect_vec(self.into_par()).into_iter().position(|x| p(x)) }
        fn interleave<Z>(self, other: Z) -> Par<'a, Self::Item> where Z: IntoParallelIterator<'a, Item = Self::Item>, Z::Iter: IndexedParallelIterator<'a> {
            let mut a = self.into_par().jobs.into_iter(); let mut b = other.into_par_iter().into_par().jobs.into_iter(); let mut out = Vec::new();
            loop { match (a.next(), b.next()) { (None, None) => break, (x, y) => { if let Some(x)=x { out.push(x) } if let Some(y)=y { out.push(y) } } } }
            Par { jobs: out }
        }
        fn len(&self) -> usize;
        fn by_exponential_blocks(self) -> Par<'a, Self::Item> { self.into_par() }
        fn by_uniform_blocks(self, _n: usize) -> Par<'a, Self::Item> { self.into_par() }
        fn unzip_into_vecs<A: 'a, B: 'a>(self, left: &mut Vec<A>, right: &mut Vec<B>) where Self: IndexedParallelIterator<'a, Item = (A, B)> {
            let (l, r): (Vec<A>, Vec<B>) = collect_vec(self.into_par()).into_iter().unzip(); *left = l; *right = r;
        }
        fn interleave_shortest<Z>(self, other: Z) -> Par<'a, Self::Item> where Z: IntoParallelIterator<'a, Item = Self::Item>, Z::Iter: IndexedParallelIterator<'a> {
            let mut a = self.into_par().jobs.into_iter(); let mut b = other.into_par_iter().into_par().jobs.into_iter(); let mut out = Vec::new();
            loop { match a.next() { None => break, Some(x) => { out.push(x); match b.next() { None => break, Some(y) => out.push(y) } } } }
            Par { jobs: out }
        }
        fn fold_chunks<T: 'a, ID, F>(self, chunk_size: usize, identity: ID, fold_op: F) -> Par<'a, T> where F: Fn(T, Self::Item) -> T + 'a, ID: Fn() -> T + 'a {
            assert!(chunk_size != 0, "chunk_size must not be zero");
            let (id, f) = (std::rc::Rc::new(identity), std::rc::Rc::new(fold_op));
            let ch = self.chunks(chunk_size);
            Par { jobs: ch.jobs.into_iter().map(|j| { let (id, f) = (id.clone(), f.clone()); Box::new(move || j().into_iter().fold(id(), |a, x| f(a, x))) as Thunk<'a, T> }).collect() }
        }
        fn fold_chunks_with<T: Clone + 'a, F>(self, chunk_size: usize, init: T, fold_op: F) -> Par<'a, T> where F: Fn(T, Self::Item) -> T + 'a {
            self.fold_chunks(chunk_size, move || init.clone(), fold_op)
        }
        fn cmp<I>(self, other: I) -> std::cmp::Ordering where I: IntoParallelIterator<'a, Item = Self::Item>, I::Iter: IndexedParallelIterator<'a>, Self::Item: Ord {
            collect_vec(self.into_par()).cmp(&collect_vec(other.into_par_iter().into_par()))
        }
        fn partial_cmp<I>(self, other: I) -> Option<std::cmp::Ordering> where I: IntoParallelIterator<'a>, I::Iter: IndexedParallelIterator<'a>, Self::Item: PartialOrd<I::Item> {
            collect_vec(self.into_par()).into_iter().partial_cmp(collect_vec(other.into_par_iter().into_par()))
        }
        fn eq<I>(self, other: I) -> bool where I: IntoParallelIterator<'a>, I::Iter: IndexedParallelIterator<'a>, Self::Item: PartialEq<I::Item> {
            collect_vec(self.into_par()).into_iter().eq(collect_vec(other.into_par_iter().into_par()))
        }
        fn ne<I>(self, other: I) -> bool where I: IntoParallelIterator<'a>, I::Iter: IndexedParallelIterator<'a>, Self::Item: PartialEq<I::Item> { !self.eq(other) }
        fn lt<I>(self, other: I) -> bool where I: IntoParallelIterator<'a>, I::Iter: IndexedParallelIterator<'a>, Self::Item: PartialOrd<I::Item> { self.partial_cmp(other) == Some(std::cmp::Ordering::Less) }
        fn le<I>(self, other: I) -> bool where I: IntoParallelIterator<'a>, I::Iter: IndexedParallelIterator<'a>, Self::Item: PartialOrd<I::Item> { matches!(self.partial_cmp(other), Some(std::cmp::Ordering::Less | std::cmp::Ordering::Equal)) }
        fn gt<I>(self, other: I) -> bool where I: IntoParallelIterator<'a>, I::Iter: IndexedParallelIterator<'a>, Self::Item: PartialOrd<I::Item> { self.partial_cmp(other) == Some(std::cmp::Ordering::Greater) }
        fn ge<I>(self, other: I) -> bool where I: IntoParallelIterator<'a>, I::Iter: IndexedParallelIterator<'a>, Self::Item: PartialOrd<I::Item> { matches!(self.partial_cmp(other), Some(std::cmp::Ordering::Greater | std::cmp::Ordering::Equal)) }
        fn position_last<P>(self, p: P) -> Option<usize> where P: Fn(Self::Item) -> bool + 'a { collect_vec(self.into_par()).into_iter().rposition(|x| p(x)) }
        fn positions<P>(self, p: P) -> ParMulti<'a, usize> where P: Fn(Self::Item) -> bool + 'a {
            let p = std::rc::Rc::new(p);
            ParMulti { jobs: self.into_par().jobs.into_iter().enumerate().map(|(i, j)| { let p=p.clone(); Box::new(move || if p(j()) { vec![i] } else { vec![] }) as Thunk<'a, Vec<usize>> }).collect() }
        }
        fn rev(self) -> Par<'a, Self::Item> { let mut j=self.into_par().jobs; j.reverse(); Par{jobs:j} }
        fn skip(self, n: usize) -> Par<'a, Self::Item> { Par{ jobs: self.into_par().jobs.into_iter().skip(n).collect() } }
        fn take(self, n: usize) -> Par<'a, Self::Item> { Par{ jobs: self.into_par().jobs.into_iter().take(n).collect() } }
        fn step_by(self, n: usize) -> Par<'a, Self::Item> { Par{ jobs: self.into_par().jobs.into_iter().step_by(n).collect() } }
        fn chunks(self, size: usize) -> Par<'a, Vec<Self::Item>> {
            let mut out: Vec<Thunk<'a, Vec<Self::Item>>> = Vec::new(); let mut cur: Vec<Thunk<'a, Self::Item>> = Vec::new();
            for j in self.into_par().jobs { cur.push(j); if cur.len()==size { let c=std::mem::take(&mut cur); out.push(Box::new(move || c.into_iter().map(|j| j()).collect())); } }
            if !cur.is_empty() { out.push(Box::new(move || cur.into_iter().map(|j| j()).collect())); }
            Par{jobs:out}
        }
    }
    impl<'a, T: 'a> IndexedParallelIterator<'a> for Par<'a, T> { fn into_par(self) -> Par<'a, T> { self } fn len(&self) -> usize { self.jobs.len() } }
    // map on an indexed iterator must stay indexed: provide it via a separate inherent method shadowing the trait one.
    impl<'a, T: 'a> Par<'a, T> {
        pub fn map<F, R: 'a>(self, f: F) -> Par<'a, R> where F: Fn(T) -> R + 'a { let f=std::rc::Rc::new(f); Par { jobs: self.jobs.into_iter().map(|j| { let f=f.clone(); Box::new(move || f(j())) as Thunk<'a, R> }).collect() } }
    }

    pub trait IntoParallelIterator<'a> { type Iter: ParallelIterator<'a, Item = Self::Item>; type Item: 'a; fn into_par_iter(self) -> Self::Iter; }
    impl<'a, T: 'a> IntoParallelIterator<'a> for Par<'a, T> { type Iter = Par<'a, T>; type Item = T; fn into_par_iter(self) -> Self::Iter { self } }
    impl<'a, T: 'a> IntoParallelIterator<'a> for ParMulti<'a, T> { type Iter = ParMulti<'a, T>; type Item = T; fn into_par_iter(self) -> Self::Iter { self } }
    fn from_iter<'a, T: 'a, I: IntoIterator<Item = T>>(i: I) -> Par<'a, T> { Par { jobs: i.into_iter().map(|x| Box::new(move || x) as Thunk<'a, T>).collect() } }
    impl<'a, T: 'a> IntoParallelIterator<'a> for Vec<T> { type Iter = Par<'a, T>; type Item = T; fn into_par_iter(self) -> Self::Iter { from_iter(self) } }
    impl<'a, T: 'a> IntoParallelIterator<'a> for &'a Vec<T> { type Iter = Par<'a, &'a T>; type Item = &'a T; fn into_par_iter(self) -> Self::Iter { from_iter(self.iter()) } }
    impl<'a, T: 'a> IntoParallelIterator<'a> for &'a mut Vec<T> { type Iter = Par<'a, &'a mut T>; type Item = &'a mut T; fn into_par_iter(self) -> Self::Iter { from_iter(self.iter_mut()) } }
    impl<'a, T: 'a> IntoParallelIterator<'a> for &'a [T] { type Iter = Par<'a, &'a T>; type Item = &'a T; fn into_par_iter(self) -> Self::Iter { from_iter(self.iter()) } }
    impl<'a, T: 'a> IntoParallelIterator<'a> for &'a mut [T] { type Iter = Par<'a, &'a mut T>; type Item = &'a mut T; fn into_par_iter(self) -> Self::Iter { from_iter(self.iter_mut()) } }
    impl<'a, T: 'a, const N: usize> IntoParallelIterator<'a> for &'a [T; N] { type Iter = Par<'a, &'a T>; type Item = &'a T; fn into_par_iter(self) -> Self::Iter { from_iter(self.iter()) } }
    impl<'a, K: 'a + Ord, V: 'a> IntoParallelIterator<'a> for &'a std::collections::BTreeMap<K, V> { type Iter = Par<'a, (&'a K, &'a V)>; type Item = (&'a K, &'a V); fn into_par_iter(self) -> Self::Iter { from_iter(self.iter()) } }
    macro_rules! range_impl { ($($t:ty),*) => { $(
        impl<'a> IntoParallelIterator<'a> for std::ops::Range<$t> { type Iter = Par<'a, $t>; type Item = $t; fn into_par_iter(self) -> Self::Iter { from_iter(self) } }
        impl<'a> IntoParallelIterator<'a> for std::ops::RangeInclusive<$t> { type Iter = Par<'a, $t>; type Item = $t; fn into_par_iter(self) -> Self::Iter { from_iter(self) } }
    )* } }
    range_impl!(usize, u64, u32, u16, u8, i64, i32, isize);

    pub trait IntoParallelRefIterator<'a> { type Iter: ParallelIterator<'a, Item = Self::Item>; type Item: 'a; fn par_iter(&'a self) -> Self::Iter; }
    impl<'a, I: 'a + ?Sized> IntoParallelRefIterator<'a> for I where &'a I: IntoParallelIterator<'a> { type Iter = <&'a I as IntoParallelIterator<'a>>::Iter; type Item = <&'a I as IntoParallelIterator<'a>>::Item; fn par_iter(&'a self) -> Self::Iter { self.into_par_iter() } }
    pub trait IntoParallelRefMutIterator<'a> { type Iter: ParallelIterator<'a, Item = Self::Item>; type Item: 'a; fn par_iter_mut(&'a mut self) -> Self::Iter; }
    impl<'a, I: 'a + ?Sized> IntoParallelRefMutIterator<'a> for I where &'a mut I: IntoParallelIterator<'a> { type Iter = <&'a mut I as IntoParallelIterator<'a>>::Iter; type Item = <&'a mut I as IntoParallelIterator<'a>>::Item; fn par_iter_mut(&'a mut self) -> Self::Iter { self.into_par_iter() } }

    pub trait ParallelExtend<'a, T: 'a> { fn par_extend<I: IntoParallelIterator<'a, Item = T>>(&mut self, it: I); }
    impl<'a, T: 'a> ParallelExtend<'a, T> for Vec<T> { fn par_extend<I: IntoParallelIterator<'a, Item = T>>(&mut self, it: I) { self.extend(collect_vec(it.into_par_iter())) } }
    impl<'a, T: 'a + Ord> IntoParallelIterator<'a> for &'a std::collections::BTreeSet<T> { type Iter = Par<'a, &'a T>; type Item = &'a T; fn into_par_iter(self) -> Self::Iter { from_iter(self.iter()) } }
    impl<'a, K: 'a + Ord, V: 'a> IntoParallelIterator<'a> for std::collections::BTreeMap<K, V> { type Iter = Par<'a, (K, V)>; type Item = (K, V); fn into_par_iter(self) -> Self::Iter { from_iter(self.into_iter()) } }
    impl<'a, T: 'a> IntoParallelIterator<'a> for &'a std::collections::VecDeque<T> { type Iter = Par<'a, &'a T>; type Item = &'a T; fn into_par_iter(self) -> Self::Iter { from_iter(self.iter()) } }
    impl<'a, T: 'a> IntoParallelIterator<'a> for Option<T> { type Iter = Par<'a, T>; type Item = T; fn into_par_iter(self) -> Self::Iter { from_iter(self.into_iter()) } }
    impl<'a, K: 'a, V: 'a, S> IntoParallelIterator<'a> for &'a std::collections::HashMap<K, V, S> { type Iter = Par<'a, (&'a K, &'a V)>; type Item = (&'a K, &'a V); fn into_par_iter(self) -> Self::Iter { from_iter(self.iter()) } }
    impl<'a, K: 'a, V: 'a, S> IntoParallelIterator<'a> for &'a mut std::collections::HashMap<K, V, S> { type Iter = Par<'a, (&'a K, &'a mut V)>; type Item = (&'a K, &'a mut V); fn into_par_iter(self) -> Self::Iter { from_iter(self.iter_mut()) } }
    impl<'a, K: 'a, V: 'a, S> IntoParallelIterator<'a> for std::collections::HashMap<K, V, S> { type Iter = Par<'a, (K, V)>; type Item = (K, V); fn into_par_iter(self) -> Self::Iter { from_iter(self.into_iter()) } }
    impl<'a, T: 'a, S> IntoParallelIterator<'a> for &'a std::collections::HashSet<T, S> { type Iter = Par<'a, &'a T>; type Item = &'a T; fn into_par_iter(self) -> Self::Iter { from_iter(self.iter()) } }
    impl<'a, T: 'a, S> IntoParallelIterator<'a> for std::collections::HashSet<T, S> { type Iter = Par<'a, T>; type Item = T; fn into_par_iter(self) -> Self::Iter { from_iter(self.into_iter()) } }
    impl<'a, T: 'a + Ord> IntoParallelIterator<'a> for std::collections::BTreeSet<T> { type Iter = Par<'a, T>; type Item = T; fn into_par_iter(self) -> Self::Iter { from_iter(self.into_iter()) } }
    impl<'a, K: 'a + Ord, V: 'a> IntoParallelIterator<'a> for &'a mut std::collections::BTreeMap<K, V> { type Iter = Par<'a, (&'a K, &'a mut V)>; type Item = (&'a K, &'a mut V); fn into_par_iter(self) -> Self::Iter { from_iter(self.iter_mut()) } }
    impl<'a, T: 'a> IntoParallelIterator<'a> for std::collections::VecDeque<T> { type Iter = Par<'a, T>; type Item = T; fn into_par_iter(self) -> Self::Iter { from_iter(self.into_iter()) } }
    impl<'a, T: 'a> IntoParallelIterator<'a> for &'a mut std::collections::VecDeque<T> { type Iter = Par<'a, &'a mut T>; type Item = &'a mut T; fn into_par_iter(self) -> Self::Iter { from_iter(self.iter_mut()) } }
    impl<'a, T: 'a> IntoParallelIterator<'a> for &'a std::collections::LinkedList<T> { type Iter = Par<'a, &'a T>; type Item = &'a T; fn into_par_iter(self) -> Self::Iter { from_iter(self.iter()) } }
    impl<'a, T: 'a> IntoParallelIterator<'a> for std::collections::LinkedList<T> { type Iter = Par<'a, T>; type Item = T; fn into_par_iter(self) -> Self::Iter { from_iter(self.into_iter()) } }
    impl<'a, T: 'a> IntoParallelIterator<'a> for &'a Option<T> { type Iter = Par<'a, &'a T>; type Item = &'a T; fn into_par_iter(self) -> Self::Iter { from_iter(self.iter()) } }
    impl<'a, T: 'a> IntoParallelIterator<'a> for &'a mut Option<T> { type Iter = Par<'a, &'a mut T>; type Item = &'a mut T; fn into_par_iter(self) -> Self::Iter { from_iter(self.iter_mut()) } }
    impl<'a, T: 'a, E> IntoParallelIterator<'a> for Result<T, E> { type Iter = Par<'a, T>; type Item = T; fn into_par_iter(self) -> Self::Iter { from_iter(self.into_iter()) } }
    impl<'a, T: 'a, const N: usize> IntoParallelIterator<'a> for [T; N] { type Iter = Par<'a, T>; type Item = T; fn into_par_iter(self) -> Self::Iter { from_iter(self.into_iter()) } }
    impl<'a, T: 'a, const N: usize> IntoParallelIterator<'a> for &'a mut [T; N] { type Iter = Par<'a, &'a mut T>; type Item = &'a mut T; fn into_par_iter(self) -> Self::Iter { from_iter(self.iter_mut()) } }
    impl<'a, T: 'a> IntoParallelIterator<'a> for Box<[T]> { type Iter = Par<'a, T>; type Item = T; fn into_par_iter(self) -> Self::Iter { from_iter(self.into_vec()) } }
    impl<'a, T: 'a> IntoParallelIterator<'a> for &'a Box<[T]> { type Iter = Par<'a, &'a T>; type Item = &'a T; fn into_par_iter(self) -> Self::Iter { from_iter(self.iter()) } }
    range_impl!(i8, i16, u128, i128);
    impl<'a> IntoParallelIterator<'a> for std::ops::Range<char> { type Iter = Par<'a, char>; type Item = char; fn into_par_iter(self) -> Self::Iter { from_iter(self) } }
    impl<'a> IntoParallelIterator<'a> for std::ops::RangeInclusive<char> { type Iter = Par<'a, char>; type Item = char; fn into_par_iter(self) -> Self::Iter { from_iter(self) } }
    /// `rayon::iter::{once, empty, repeatn, repeat_n}`; `repeat(x)` supports `take` and `zip` (the only finite uses)
    pub fn once<'a, T: 'a>(x: T) -> Par<'a, T> { from_iter(std::iter::once(x)) }
    pub fn empty<'a, T: 'a>() -> Par<'a, T> { from_iter(std::iter::empty()) }
    pub fn repeatn<'a, T: 'a + Clone>(x: T, n: usize) -> Par<'a, T> { from_iter((0..n).map(move |_| x.clone()).collect::<Vec<_>>()) }
    pub fn repeat_n<'a, T: 'a + Clone>(x: T, n: usize) -> Par<'a, T> { repeatn(x, n) }
    pub struct Repeat<T> { x: T }
    pub fn repeat<T: Clone>(x: T) -> Repeat<T> { Repeat { x } }
    impl<T: Clone> Repeat<T> {
        pub fn take<'a>(self, n: usize) -> Par<'a, T> where T: 'a { repeatn(self.x, n) }
        pub fn zip<'a, Z>(self, other: Z) -> Par<'a, (T, Z::Item)> where T: 'a, Z: IntoParallelIterator<'a>, Z::Iter: IndexedParallelIterator<'a> {
            let x = self.x; Par { jobs: other.into_par_iter().into_par().jobs.into_iter().map(|j| { let x = x.clone(); Box::new(move || (x, j())) as Thunk<'a, _> }).collect() }
        }
    }
    pub trait ParallelDrainRange<'a, T: 'a> { fn par_drain<R: std::ops::RangeBounds<usize>>(&'a mut self, range: R) -> Par<'a, T>; }
    impl<'a, T: 'a> ParallelDrainRange<'a, T> for Vec<T> { fn par_drain<R: std::ops::RangeBounds<usize>>(&'a mut self, range: R) -> Par<'a, T> { from_iter(self.drain(range).collect::<Vec<_>>()) } }
    pub trait ParallelDrainFull<'a, T: 'a> { fn par_drain(self) -> Par<'a, T>; }
    impl<'a, K: 'a, V: 'a, S> ParallelDrainFull<'a, (K, V)> for &'a mut std::collections::HashMap<K, V, S> { fn par_drain(self) -> Par<'a, (K, V)> { from_iter(self.drain().collect::<Vec<_>>()) } }
    impl<'a, T: 'a, S> ParallelDrainFull<'a, T> for &'a mut std::collections::HashSet<T, S> { fn par_drain(self) -> Par<'a, T> { from_iter(self.drain().collect::<Vec<_>>()) } }
    pub trait ParallelBridge<'a>: Sized { type Item: 'a; fn par_bridge(self) -> ParMulti<'a, Self::Item>; }
    impl<'a, T: 'a, I: Iterator<Item = T>> ParallelBridge<'a> for I { type Item = T; fn par_bridge(self) -> ParMulti<'a, T> { from_iter(self).into_multi() } }
}

pub mod slice {
    use super::iter::*;
    pub trait ParallelSlice<T> { fn as_parallel_slice(&self) -> &[T];
        fn par_chunks<'a>(&'a self, size: usize) -> Par<'a, &'a [T]> where T: 'a { Par { jobs: self.as_parallel_slice().chunks(size).map(|c| Box::new(move || c) as Thunk<'a, &'a [T]>).collect() } } }
    impl<T> ParallelSlice<T> for [T] { fn as_parallel_slice(&self) -> &[T] { self } }
    pub trait ParallelSliceExtra<T> { fn as_ps(&self) -> &[T];
        fn par_windows<'a>(&'a self, size: usize) -> Par<'a, &'a [T]> where T: 'a { Par { jobs: self.as_ps().windows(size).map(|c| Box::new(move || c) as Thunk<'a, &'a [T]>).collect() } }
        fn par_chunks_exact<'a>(&'a self, size: usize) -> Par<'a, &'a [T]> where T: 'a { Par { jobs: self.as_ps().chunks_exact(size).map(|c| Box::new(move || c) as Thunk<'a, &'a [T]>).collect() } } }
    impl<T> ParallelSliceExtra<T> for [T] { fn as_ps(&self) -> &[T] { self } }
    pub trait ParallelSliceExtra2<T> { fn as_ps2(&self) -> &[T];
        fn par_rchunks<'a>(&'a self, size: usize) -> Par<'a, &'a [T]> where T: 'a { Par { jobs: self.as_ps2().rchunks(size).map(|c| Box::new(move || c) as Thunk<'a, &'a [T]>).collect() } }
        fn par_rchunks_exact<'a>(&'a self, size: usize) -> Par<'a, &'a [T]> where T: 'a { Par { jobs: self.as_ps2().rchunks_exact(size).map(|c| Box::new(move || c) as Thunk<'a, &'a [T]>).collect() } }
        fn par_split<'a, P: Fn(&T) -> bool + 'a>(&'a self, sep: P) -> ParMulti<'a, &'a [T]> where T: 'a { Par { jobs: self.as_ps2().split(move |x| sep(x)).collect::<Vec<_>>().into_iter().map(|c| Box::new(move || c) as Thunk<'a, &'a [T]>).collect() }.into_multi() }
        fn par_split_inclusive<'a, P: Fn(&T) -> bool + 'a>(&'a self, sep: P) -> ParMulti<'a, &'a [T]> where T: 'a { Par { jobs: self.as_ps2().split_inclusive(move |x| sep(x)).collect::<Vec<_>>().into_iter().map(|c| Box::new(move || c) as Thunk<'a, &'a [T]>).collect() }.into_multi() }
        fn par_chunk_by<'a, P: Fn(&T, &T) -> bool + 'a>(&'a self, pred: P) -> ParMulti<'a, &'a [T]> where T: 'a { Par { jobs: self.as_ps2().chunk_by(move |a, b| pred(a, b)).collect::<Vec<_>>().into_iter().map(|c| Box::new(move || c) as Thunk<'a, &'a [T]>).collect() }.into_multi() } }
    impl<T> ParallelSliceExtra2<T> for [T] { fn as_ps2(&self) -> &[T] { self } }
    pub trait ParallelSliceMutExtra2<T> { fn as_psm2(&mut self) -> &mut [T];
        fn par_rchunks_mut<'a>(&'a mut self, size: usize) -> Par<'a, &'a mut [T]> where T: 'a { Par { jobs: self.as_psm2().rchunks_mut(size).map(|c| Box::new(move || c) as Thunk<'a, &'a mut [T]>).collect() } }
        fn par_rchunks_exact_mut<'a>(&'a mut self, size: usize) -> Par<'a, &'a mut [T]> where T: 'a { Par { jobs: self.as_psm2().rchunks_exact_mut(size).map(|c| Box::new(move || c) as Thunk<'a, &'a mut [T]>).collect() } }
        fn par_split_mut<'a, P: Fn(&T) -> bool + 'a>(&'a mut self, sep: P) -> ParMulti<'a, &'a mut [T]> where T: 'a { Par { jobs: self.as_psm2().split_mut(move |x| sep(x)).collect::<Vec<_>>().into_iter().map(|c| Box::new(move || c) as Thunk<'a, &'a mut [T]>).collect() }.into_multi() }
        fn par_sort_by_cached_key<K: Ord, F: Fn(&T) -> K>(&mut self, f: F) { self.as_psm2().sort_by_cached_key(|a| f(a)) } }
    impl<T> ParallelSliceMutExtra2<T> for [T] { fn as_psm2(&mut self) -> &mut [T] { self } }
    pub trait ParallelSliceMutExtra<T> { fn as_psm(&mut self) -> &mut [T];
        fn par_chunks_exact_mut<'a>(&'a mut self, size: usize) -> Par<'a, &'a mut [T]> where T: 'a { Par { jobs: self.as_psm().chunks_exact_mut(size).map(|c| Box::new(move || c) as Thunk<'a, &'a mut [T]>).collect() } }
        fn par_sort(&mut self) where T: Ord { self.as_psm().sort() }
        fn par_sort_unstable(&mut self) where T: Ord { self.as_psm().sort_unstable() }
        fn par_sort_by<F: Fn(&T, &T) -> std::cmp::Ordering>(&mut self, f: F) { self.as_psm().sort_by(|a, b| f(a, b)) }
        fn par_sort_unstable_by<F: Fn(&T, &T) -> std::cmp::Ordering>(&mut self, f: F) { self.as_psm().sort_unstable_by(|a, b| f(a, b)) }
        fn par_sort_by_key<K: Ord, F: Fn(&T) -> K>(&mut self, f: F) { self.as_psm().sort_by_key(|a| f(a)) }
        fn par_sort_unstable_by_key<K: Ord, F: Fn(&T) -> K>(&mut self, f: F) { self.as_psm().sort_unstable_by_key(|a| f(a)) } }
    impl<T> ParallelSliceMutExtra<T> for [T] { fn as_psm(&mut self) -> &mut [T] { self } }
    pub trait ParallelSliceMut<T> { fn as_parallel_slice_mut(&mut self) -> &mut [T];
        fn par_chunks_mut<'a>(&'a mut self, size: usize) -> Par<'a, &'a mut [T]> where T: 'a { Par { jobs: self.as_parallel_slice_mut().chunks_mut(size).map(|c| Box::new(move || c) as Thunk<'a, &'a mut [T]>).collect() } } }
    impl<T> ParallelSliceMut<T> for [T] { fn as_parallel_slice_mut(&mut self) -> &mut [T] { self } }
}

pub mod str {
    use super::iter::*;
    pub trait ParallelString { fn as_parallel_string(&self) -> &str;
        fn par_chars<'a>(&'a self) -> ParMulti<'a, char> { Par { jobs: self.as_parallel_string().chars().map(|c| Box::new(move || c) as Thunk<'a, char>).collect() }.into_multi() }
        fn par_char_indices<'a>(&'a self) -> ParMulti<'a, (usize, char)> { Par { jobs: self.as_parallel_string().char_indices().map(|c| Box::new(move || c) as Thunk<'a, (usize, char)>).collect() }.into_multi() }
        fn par_bytes<'a>(&'a self) -> Par<'a, u8> { Par { jobs: self.as_parallel_string().bytes().map(|c| Box::new(move || c) as Thunk<'a, u8>).collect() } }
        fn par_lines<'a>(&'a self) -> ParMulti<'a, &'a str> { Par { jobs: self.as_parallel_string().lines().map(|c| Box::new(move || c) as Thunk<'a, &'a str>).collect() }.into_multi() }
        fn par_split_whitespace<'a>(&'a self) -> ParMulti<'a, &'a str> { Par { jobs: self.as_parallel_string().split_whitespace().map(|c| Box::new(move || c) as Thunk<'a, &'a str>).collect() }.into_multi() } }
    impl ParallelString for str { fn as_parallel_string(&self) -> &str { self } }
}

pub mod prelude { pub use crate::iter::{IndexedParallelIterator, IntoParallelIterator, IntoParallelRefIterator, IntoParallelRefMutIterator, ParallelBridge, ParallelIterator}; pub use crate::slice::{ParallelSlice, ParallelSliceMut, ParallelSliceExtra, ParallelSliceMutExtra, ParallelSliceExtra2, ParallelSliceMutExtra2}; pub use crate::iter::{ParallelDrainRange, ParallelDrainFull}; pub use crate::str::ParallelString; pub use crate::iter::ParallelExtend; }

/// `rayon::scope` / `spawn`: spawned closures are queued and run, in a seeded order, when the scope ends.
pub struct Scope<'scope> { queue: std::cell::RefCell<Vec<Box<dyn FnOnce(&Scope<'scope>) + 'scope>>> }
impl<'scope> Scope<'scope> {
    pub fn spawn<F: FnOnce(&Scope<'scope>) + 'scope>(&self, f: F) { self.queue.borrow_mut().push(Box::new(f)); }
}
pub fn scope<'scope, OP, R>(op: OP) -> R where OP: FnOnce(&Scope<'scope>) -> R {
    let s = Scope { queue: std::cell::RefCell::new(Vec::new()) };
    let r = op(&s);
    loop {
        let batch: Vec<_> = std::mem::take(&mut *s.queue.borrow_mut());
        if batch.is_empty() { break; }
        let order = sim::perm(batch.len());
        let mut batch: Vec<Option<_>> = batch.into_iter().map(Some).collect();
        for i in order { (batch[i].take().unwrap())(&s); }
    }
    r
}
pub type ScopeFifo<'scope> = Scope<'scope>;
impl<'scope> Scope<'scope> { pub fn spawn_fifo<F: FnOnce(&Scope<'scope>) + 'scope>(&self, f: F) { self.spawn(f) } }
pub fn scope_fifo<'scope, OP, R>(op: OP) -> R where OP: FnOnce(&ScopeFifo<'scope>) -> R { scope(op) }
pub fn in_place_scope<'scope, OP, R>(op: OP) -> R where OP: FnOnce(&Scope<'scope>) -> R { scope(op) }
pub fn in_place_scope_fifo<'scope, OP, R>(op: OP) -> R where OP: FnOnce(&ScopeFifo<'scope>) -> R { scope(op) }
/// fire-and-forget: runs at once (one legal schedule; the caller cannot observe completion anyway)
pub fn spawn<F: FnOnce() + 'static>(f: F) { f() }
pub fn spawn_fifo<F: FnOnce() + 'static>(f: F) { f() }
#[derive(Clone, Copy, Debug)]
pub struct BroadcastContext { index: usize, num: usize }
impl BroadcastContext { pub fn index(&self) -> usize { self.index } pub fn num_threads(&self) -> usize { self.num } }
/// `rayon::broadcast`: the closure runs once per simulated worker, in a seeded order
pub fn broadcast<OP, R>(op: OP) -> Vec<R> where OP: Fn(BroadcastContext) -> R {
    let n = current_num_threads(); let order = sim::perm(n);
    let mut out: Vec<Option<R>> = (0..n).map(|_| None).collect();
    for i in order { out[i] = Some(op(BroadcastContext { index: i, num: n })); }
    out.into_iter().map(|x| x.unwrap()).collect()
}
#[derive(Clone, Copy, Debug, PartialEq, Eq)]
pub enum Yield { Executed, Idle }
pub fn yield_now() -> Option<Yield> { Some(Yield::Idle) }
pub fn yield_local() -> Option<Yield> { Some(Yield::Idle) }
pub fn current_thread_index() -> Option<usize> { Some(0) }
pub fn max_num_threads() -> usize { 1 << 16 }

/// `ThreadPoolBuilder::new().num_threads(n).build()?.install(f)`: runs `f` with the thread knob set to n.
#[derive(Default)]
pub struct ThreadPoolBuilder { n: usize }
#[derive(Debug)]
pub struct ThreadPoolBuildError;
impl std::fmt::Display for ThreadPoolBuildError { fn fmt(&self, f: &mut std::fmt::Formatter<'_>) -> std::fmt::Result { write!(f, "thread pool build error") } }
impl std::error::Error for ThreadPoolBuildError {}
pub struct ThreadPool { n: usize }
impl ThreadPoolBuilder {
    pub fn new() -> Self { ThreadPoolBuilder { n: 0 } }
    pub fn num_threads(mut self, n: usize) -> Self { self.n = n; self }
    pub fn thread_name<F: FnMut(usize) -> String + 'static>(self, _f: F) -> Self { self }
    pub fn stack_size(self, _n: usize) -> Self { self }
    pub fn use_current_thread(self) -> Self { self }
    pub fn build(self) -> Result<ThreadPool, ThreadPoolBuildError> { Ok(ThreadPool { n: if self.n == 0 { current_num_threads() } else { self.n } }) }
    pub fn build_global(self) -> Result<(), ThreadPoolBuildError> { if self.n > 0 { sim::SCHED.with(|s| s.borrow_mut().threads = self.n); } Ok(()) }
}
impl ThreadPool {
    pub fn install<OP, R>(&self, op: OP) -> R where OP: FnOnce() -> R {
        let old = sim::SCHED.with(|s| { let mut s = s.borrow_mut(); let o = s.threads; s.threads = self.n.max(1); o });
        let r = op();
        sim::SCHED.with(|s| s.borrow_mut().threads = old);
        r
    }
    pub fn current_num_threads(&self) -> usize { self.n }
    pub fn current_thread_index(&self) -> Option<usize> { Some(0) }
    pub fn spawn<F: FnOnce() + 'static>(&self, f: F) { self.install(f) }
    pub fn spawn_fifo<F: FnOnce() + 'static>(&self, f: F) { self.install(f) }
    pub fn broadcast<OP, R>(&self, op: OP) -> Vec<R> where OP: Fn(BroadcastContext) -> R { self.install(|| broadcast(op)) }
    pub fn in_place_scope<'scope, OP, R>(&self, op: OP) -> R where OP: FnOnce(&Scope<'scope>) -> R { self.install(|| scope(op)) }
    pub fn scope_fifo<'scope, OP, R>(&self, op: OP) -> R where OP: FnOnce(&ScopeFifo<'scope>) -> R { self.install(|| scope(op)) }
    pub fn join<A, B, RA, RB>(&self, a: A, b: B) -> (RA, RB) where A: FnOnce() -> RA, B: FnOnce() -> RB { self.install(|| join(a, b)) }
    pub fn scope<'scope, OP, R>(&self, op: OP) -> R where OP: FnOnce(&Scope<'scope>) -> R { self.install(|| scope(op)) }
}
