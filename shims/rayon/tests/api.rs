//! Smoke tests of the shim's API surface: every adaptor is used the way rayon code uses it and must
//! agree with the sequential meaning whenever rayon guarantees one, under several seeded schedules.
use rayon::prelude::*;

fn under_schedules(f: impl Fn()) {
    rayon::sim::configure(0, 1, true);
    f();
    for seed in 1..40u64 {
        rayon::sim::configure(seed, 1 + (seed as usize % 7), false);
        f();
    }
}

#[test]
fn ordered_adaptors_match_sequential() {
    under_schedules(|| {
        let v: Vec<u64> = (0..97).collect();
        assert_eq!(v.par_iter().map(|x| x * 3).collect::<Vec<_>>(), v.iter().map(|x| x * 3).collect::<Vec<_>>());
        assert_eq!(v.par_iter().filter(|x| **x % 3 == 0).count(), v.iter().filter(|x| **x % 3 == 0).count());
        assert_eq!(v.par_iter().sum::<u64>(), v.iter().sum::<u64>());
        assert_eq!(v.par_iter().copied().reduce(|| 0, |a, b| a + b), v.iter().sum::<u64>());
        assert_eq!(v.par_iter().position_first(|x| *x == 50), Some(50));
        assert_eq!(v.par_iter().position_last(|x| *x % 2 == 0), Some(96));
        assert_eq!(v.par_iter().positions(|x| *x % 10 == 0).collect::<Vec<_>>(), vec![0, 10, 20, 30, 40, 50, 60, 70, 80, 90]);
        assert_eq!(v.par_iter().find_first(|x| **x > 10), Some(&11));
        assert_eq!(v.par_iter().find_last(|x| **x < 10), Some(&9));
        assert_eq!(v.par_iter().len(), 97);
        assert!(v.par_iter().eq(v.par_iter()));
        assert!(v.par_iter().take(3).lt(v.par_iter().skip(1).take(3)));
        let mut u = v.clone();
        u.par_iter_mut().update(|x| **x += 1).for_each(|_| {});
        assert_eq!(u[5], 6);
        assert_eq!(v.par_iter().fold_chunks(10, || 0u64, |a, x| a + *x).collect::<Vec<_>>().len(), 10);
        assert_eq!(v.par_iter().fold_with(0u64, |a, x| a + *x).sum::<u64>(), v.iter().sum::<u64>());
        let r: Result<(), u64> = v.par_iter().try_for_each(|x| if *x < 1000 { Ok(()) } else { Err(*x) });
        assert!(r.is_ok());
        let r: Option<()> = v.par_iter().try_for_each(|x| if *x == 1000 { None } else { Some(()) });
        assert!(r.is_some());
        let t: Option<u64> = v.par_iter().map(|x| Some(*x)).try_reduce(|| 0, |a, b| a.checked_add(b));
        assert_eq!(t, Some(v.iter().sum()));
        let t: Result<u64, ()> = v.par_iter().try_fold(|| 0u64, |a, x| Ok::<u64, ()>(a + *x)).try_reduce(|| 0, |a, b| Ok(a + b));
        assert_eq!(t, Ok(v.iter().sum()));
        let (ev, od): (Vec<u64>, Vec<u64>) = v.par_iter().partition_map(|x| if x % 2 == 0 { rayon::iter::Either::Left(*x) } else { rayon::iter::Either::Right(*x) });
        assert_eq!((ev.len(), od.len()), (49, 48));
        assert_eq!(rayon::iter::repeat(7u8).take(4).collect::<Vec<_>>(), vec![7; 4]);
        assert_eq!(rayon::iter::repeatn(1u8, 3).chain(rayon::iter::once(2)).collect::<Vec<_>>(), vec![1, 1, 1, 2]);
        assert_eq!(v.par_rchunks(10).count(), 10);
        assert_eq!("a b c".par_split_whitespace().count(), 3);
        let mut w = vec![3, 1, 2];
        w.par_sort_by_cached_key(|x| *x);
        assert_eq!(w, vec![1, 2, 3]);
        let mut d = vec![1, 2, 3, 4];
        assert_eq!(d.par_drain(1..3).collect::<Vec<_>>(), vec![2, 3]);
        assert_eq!(d, vec![1, 4]);
        assert_eq!(rayon::broadcast(|c| c.index()).len(), rayon::current_num_threads());
    });
}

#[test]
fn any_adaptors_depend_on_the_schedule_but_stay_legal() {
    // skip_any_while is NOT skip_while: under some schedule an interior zero run is dropped as well
    let v: Vec<u32> = vec![0, 0, 5, 0, 0, 7, 0, 9];
    let seq: Vec<u32> = v.iter().copied().skip_while(|x| *x == 0).collect();
    rayon::sim::configure(0, 1, true);
    assert_eq!(v.par_iter().copied().skip_any_while(|x| *x == 0).collect::<Vec<_>>(), seq);
    let mut differs = false;
    for seed in 1..200u64 {
        rayon::sim::configure(seed, 4, false);
        let got: Vec<u32> = v.par_iter().copied().skip_any_while(|x| *x == 0).collect();
        // legal outcomes: every non-zero item survives, order is kept
        assert_eq!(got.iter().copied().filter(|x| *x != 0).collect::<Vec<_>>(), vec![5, 7, 9]);
        differs |= got != seq;
        let some = v.par_iter().find_any(|x| **x != 0).unwrap();
        assert!([5, 7, 9].contains(some));
        assert_eq!(v.par_iter().take_any(3).count(), 3);
        assert_eq!(v.par_iter().skip_any(3).count(), 5);
    }
    assert!(differs, "no schedule exercised the difference between skip_any_while and skip_while");
}
