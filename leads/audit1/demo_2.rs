//! Audit demo 2: `HyraxPC::check` does not relate the size of the commitment / point to the
//! size of the verifier key, and the default `check_combinations` (used by Hyrax) ignores
//! surplus evaluations and unknown query labels.
//!
//! Every test below FAILS on the unchanged tree because the verifier returns `Ok(true)`.
use ark_crypto_primitives::sponge::{
    poseidon::{PoseidonConfig, PoseidonSponge},
    CryptographicSponge,
};
use ark_ec::{AffineRepr, CurveGroup};
use ark_ed_on_bls12_381::EdwardsAffine;
use ark_ff::{One, PrimeField, UniformRand, Zero};
use ark_poly::{DenseMultilinearExtension, MultilinearExtension};
use ark_poly_commit::{
    hyrax::{HyraxCommitment, HyraxPC, HyraxProof, HyraxVerifierKey},
    Evaluations, LabeledCommitment, LabeledPolynomial, LinearCombination, PolynomialCommitment,
    QuerySet,
};
use ark_serialize::serialize_to_vec;
use ark_std::test_rng;
use rand_chacha::{rand_core::SeedableRng, ChaCha20Rng};

type G = EdwardsAffine;
type Fr = <G as AffineRepr>::ScalarField;
type Hyrax = HyraxPC<G, DenseMultilinearExtension<Fr>>;

fn test_sponge<F: PrimeField>() -> PoseidonSponge<F> {
    let full_rounds = 8;
    let partial_rounds = 31;
    let alpha = 17;
    let mds = vec![
        vec![F::one(), F::zero(), F::one()],
        vec![F::one(), F::one(), F::zero()],
        vec![F::zero(), F::one(), F::one()],
    ];
    let mut v = Vec::new();
    let mut ark_rng = test_rng();
    for _ in 0..(full_rounds + partial_rounds) {
        let mut res = Vec::new();
        for _ in 0..3 {
            res.push(F::rand(&mut ark_rng));
        }
        v.push(res);
    }
    let config = PoseidonConfig::new(full_rounds, partial_rounds, alpha, mds, v, 2, 1);
    PoseidonSponge::new(&config)
}

/// Same as the crate-private `hyrax::utils::tensor_prime`.
fn tensor_prime(values: &[Fr]) -> Vec<Fr> {
    if values.is_empty() {
        return vec![Fr::one()];
    }
    let tail = tensor_prime(&values[1..]);
    let val = values[0];
    tail.iter()
        .map(|v| *v * (Fr::one() - val))
        .chain(tail.iter().map(|v| *v * val))
        .collect()
}

fn msm(bases: &[G], scalars: &[Fr]) -> <G as AffineRepr>::Group {
    assert_eq!(bases.len(), scalars.len());
    bases
        .iter()
        .zip(scalars)
        .map(|(b, s)| *b * *s)
        .fold(<G as AffineRepr>::Group::zero(), |a, b| a + b)
}

/// A prover that follows `HyraxPC::open` step by step, but for a matrix with
/// `2^(point.len()/2)` rows and `vk.com_key.len()` columns, i.e. for a "polynomial" whose
/// size does not match the key. Returns (commitment, proof, value the verifier will accept).
fn prove_mismatched(
    vk: &HyraxVerifierKey<G>,
    mat: &[Vec<Fr>],
    point: &Vec<Fr>,
    sponge: &mut PoseidonSponge<Fr>,
    rng: &mut ChaCha20Rng,
) -> (HyraxCommitment<G>, HyraxProof<G>, Fr) {
    let n = point.len();
    let k = vk.com_key.len();
    let point_rev: Vec<Fr> = point.iter().rev().cloned().collect();
    let l = tensor_prime(&point_rev[n / 2..]);
    let r = tensor_prime(&point_rev[..n / 2]);
    assert_eq!(mat.len(), l.len());
    assert!(mat.iter().all(|row| row.len() == k));

    let rands: Vec<Fr> = (0..mat.len()).map(|_| Fr::rand(rng)).collect();
    let row_coms: Vec<G> = mat
        .iter()
        .zip(&rands)
        .map(|(row, rho)| (msm(&vk.com_key, row) + vk.h * *rho).into_affine())
        .collect();

    let lt: Vec<Fr> = (0..k)
        .map(|j| (0..mat.len()).map(|i| l[i] * mat[i][j]).sum())
        .collect();
    let r_lt: Fr = l.iter().zip(&rands).map(|(a, b)| *a * *b).sum();
    // what `inner_product(&r, z)` computes in the verifier: zip, i.e. the shorter length
    let ip = |a: &[Fr], b: &[Fr]| -> Fr { a.iter().zip(b).map(|(x, y)| *x * *y).sum() };
    let value = ip(&r, &lt);

    let r_eval = Fr::rand(rng);
    let com_eval: G = (vk.com_key[0] * value + vk.h * r_eval).into_affine();
    let d: Vec<Fr> = (0..k).map(|_| Fr::rand(rng)).collect();
    let b = ip(&r, &d);
    let r_d = Fr::rand(rng);
    let com_d: G = (msm(&vk.com_key, &d) + vk.h * r_d).into_affine();
    let r_b = Fr::rand(rng);
    let com_b: G = (vk.com_key[0] * b + vk.h * r_b).into_affine();

    sponge.absorb(&serialize_to_vec!(*vk).unwrap());
    sponge.absorb(&serialize_to_vec!(row_coms).unwrap());
    sponge.absorb(point);
    sponge.absorb(&serialize_to_vec!(com_eval).unwrap());
    sponge.absorb(&serialize_to_vec!(com_d).unwrap());
    sponge.absorb(&serialize_to_vec!(com_b).unwrap());
    let c: Fr = sponge.squeeze_field_elements(1)[0];

    let z: Vec<Fr> = d.iter().zip(&lt).map(|(d, t)| *d + c * *t).collect();
    let z_d = c * r_lt + r_d;
    let z_b = c * r_eval + r_b;

    (
        HyraxCommitment { row_coms },
        HyraxProof {
            com_eval,
            com_d,
            com_b,
            z,
            z_d,
            z_b,
            r_eval,
        },
        value,
    )
}

/// Key for 2 variables (2 generators). The verifier accepts an opening of a FOUR-variable
/// commitment (4 rows) at a 4-coordinate point. `commit` itself refuses such a polynomial
/// (`InvalidNumberOfVariables`): the key does not support it.
#[test]
fn commitment_larger_than_key_is_rejected() {
    let rng = &mut ChaCha20Rng::from_rng(test_rng()).unwrap();
    let pp = Hyrax::setup(1, Some(2), rng).unwrap();
    let (ck, vk) = Hyrax::trim(&pp, 1, 1, None).unwrap();
    assert_eq!(vk.com_key.len(), 2);

    // the honest committer refuses a 4-variate polynomial with this key
    let p4 = LabeledPolynomial::new(
        "p".to_string(),
        DenseMultilinearExtension::<Fr>::rand(4, rng),
        None,
        None,
    );
    assert!(Hyrax::commit(&ck, &[p4], Some(rng)).is_err());

    let mat: Vec<Vec<Fr>> = (0..4)
        .map(|_| (0..2).map(|_| Fr::rand(rng)).collect())
        .collect();
    let point: Vec<Fr> = (0..4).map(|_| Fr::rand(rng)).collect();
    let (com, proof, value) = prove_mismatched(&vk, &mat, &point, &mut test_sponge::<Fr>(), rng);
    let lc = LabeledCommitment::new("p".to_string(), com, Some(1));

    let res = Hyrax::check(
        &vk,
        &[lc],
        &point,
        [value],
        &vec![proof],
        &mut test_sponge::<Fr>(),
        Some(rng),
    );
    assert!(
        !matches!(res, Ok(true)),
        "a 4-variable opening was accepted under a key for 2 variables: {:?}",
        res
    );
}

/// Key for 4 variables (4 generators). The verifier accepts an opening of a 2-row
/// commitment at a 2-coordinate point. The rows commit to vectors of length 4 whose last
/// two entries are non-zero, so the commitment is not a commitment to any 2-variate
/// polynomial; the surplus entries of `z` are silently dropped by `inner_product(&r, z)`.
#[test]
fn commitment_smaller_than_key_is_rejected() {
    let rng = &mut ChaCha20Rng::from_rng(test_rng()).unwrap();
    let pp = Hyrax::setup(1, Some(4), rng).unwrap();
    let (_ck, vk) = Hyrax::trim(&pp, 1, 1, None).unwrap();
    assert_eq!(vk.com_key.len(), 4);

    let mat: Vec<Vec<Fr>> = (0..2)
        .map(|_| (0..4).map(|_| Fr::rand(rng)).collect())
        .collect();
    let point: Vec<Fr> = (0..2).map(|_| Fr::rand(rng)).collect();
    let (com, proof, value) = prove_mismatched(&vk, &mat, &point, &mut test_sponge::<Fr>(), rng);
    assert_eq!(proof.z.len(), 4);
    let lc = LabeledCommitment::new("p".to_string(), com, Some(1));

    let res = Hyrax::check(
        &vk,
        &[lc],
        &point,
        [value],
        &vec![proof],
        &mut test_sponge::<Fr>(),
        Some(rng),
    );
    assert!(
        !matches!(res, Ok(true)),
        "a 2-variable opening (z of length 4) was accepted under a key for 4 variables: {:?}",
        res
    );
}

fn lc_setup(
    rng: &mut ChaCha20Rng,
) -> (
    HyraxVerifierKey<G>,
    Vec<LabeledPolynomial<Fr, DenseMultilinearExtension<Fr>>>,
    Vec<LabeledCommitment<HyraxCommitment<G>>>,
    Vec<<Hyrax as PolynomialCommitment<Fr, DenseMultilinearExtension<Fr>>>::CommitmentState>,
    Vec<Fr>,
) {
    let pp = Hyrax::setup(1, Some(2), rng).unwrap();
    let (ck, vk) = Hyrax::trim(&pp, 1, 1, None).unwrap();
    let polys: Vec<_> = ["p1", "p2"]
        .iter()
        .map(|l| {
            LabeledPolynomial::new(
                l.to_string(),
                DenseMultilinearExtension::<Fr>::rand(2, rng),
                None,
                None,
            )
        })
        .collect();
    let (coms, states) = Hyrax::commit(&ck, &polys, Some(rng)).unwrap();
    let point: Vec<Fr> = (0..2).map(|_| Fr::rand(rng)).collect();
    (vk, polys, coms, states, point)
}

/// Default `check_combinations`: the list of evaluations carried by the proof is zipped
/// with the expected (polynomial, point) pairs; surplus evaluations are ignored.
#[test]
fn check_combinations_rejects_surplus_evaluations() {
    let rng = &mut ChaCha20Rng::from_rng(test_rng()).unwrap();
    let (vk, polys, coms, states, point) = lc_setup(rng);
    let ck = vk.clone();

    let lc = LinearCombination::new("lc", vec![(Fr::one(), "p1"), (Fr::from(2u64), "p2")]);
    let mut qs = QuerySet::new();
    qs.insert(("lc".to_string(), ("z".to_string(), point.clone())));
    let v = polys[0].evaluate(&point) + Fr::from(2u64) * polys[1].evaluate(&point);
    let mut evals = Evaluations::new();
    evals.insert(("lc".to_string(), point.clone()), v);

    let mut proof = Hyrax::open_combinations(
        &ck,
        &[lc.clone()],
        &polys,
        &coms,
        &qs,
        &mut test_sponge::<Fr>(),
        &states,
        Some(rng),
    )
    .unwrap();
    assert!(Hyrax::check_combinations(
        &vk,
        &[lc.clone()],
        &coms,
        &qs,
        &evals,
        &proof,
        &mut test_sponge::<Fr>(),
        rng
    )
    .unwrap());

    let e = proof.evals.as_mut().unwrap();
    assert_eq!(e.len(), 2);
    e.push(Fr::rand(rng));
    e.push(Fr::rand(rng));
    let res = Hyrax::check_combinations(
        &vk,
        &[lc],
        &coms,
        &qs,
        &evals,
        &proof,
        &mut test_sponge::<Fr>(),
        rng,
    );
    assert!(
        !matches!(res, Ok(true)),
        "a proof carrying 4 evaluations for 2 (polynomial, point) pairs was accepted"
    );
}

/// Default `check_combinations`: a query whose label is not the label of one of the given
/// linear combinations is skipped, so the claimed value for it is never verified.
#[test]
fn check_combinations_rejects_query_without_linear_combination() {
    let rng = &mut ChaCha20Rng::from_rng(test_rng()).unwrap();
    let (vk, polys, coms, states, point) = lc_setup(rng);
    let ck = vk.clone();

    let lc = LinearCombination::new("lc", vec![(Fr::one(), "p1"), (Fr::from(2u64), "p2")]);
    let mut qs = QuerySet::new();
    qs.insert(("lc".to_string(), ("z".to_string(), point.clone())));
    let v = polys[0].evaluate(&point) + Fr::from(2u64) * polys[1].evaluate(&point);
    let mut evals = Evaluations::new();
    evals.insert(("lc".to_string(), point.clone()), v);

    let proof = Hyrax::open_combinations(
        &ck,
        &[lc.clone()],
        &polys,
        &coms,
        &qs,
        &mut test_sponge::<Fr>(),
        &states,
        Some(rng),
    )
    .unwrap();

    // The verifier also asks for "p1" at the same point, and is given a FALSE value.
    qs.insert(("p1".to_string(), ("z".to_string(), point.clone())));
    evals.insert(
        ("p1".to_string(), point.clone()),
        polys[0].evaluate(&point) + Fr::one(),
    );
    let res = Hyrax::check_combinations(
        &vk,
        &[lc],
        &coms,
        &qs,
        &evals,
        &proof,
        &mut test_sponge::<Fr>(),
        rng,
    );
    assert!(
        !matches!(res, Ok(true)),
        "a false claimed value for the queried label \"p1\" was accepted"
    );
}
