//! Audit demo 1: `MultilinearPC::check` does not validate the shape of its inputs.
//!
//! Every test below FAILS on the unchanged tree because the verifier returns `true`
//! for an input it must reject.
use ark_bls12_381::Bls12_381;
use ark_ec::{pairing::Pairing, AffineRepr};
use ark_poly::{DenseMultilinearExtension, MultilinearExtension, Polynomial};
use ark_poly_commit::multilinear_pc::{data_structures::Proof, MultilinearPC};

// NOTE: a proof with too many / too few elements is NOT accepted: `E::multi_pairing`
// (ark-ec 0.5) uses `zip_eq` and panics. That is a panic on attacker-controlled input, not
// an acceptance, so it is not demonstrated here.
use ark_std::{test_rng, UniformRand};

type E = Bls12_381;
type Fr = <E as Pairing>::ScalarField;
type G2Affine = <E as Pairing>::G2Affine;

/// A point with more coordinates than the polynomial has variables is accepted: only
/// `point[0..vk.nv]` is read, the rest is ignored. The statement "p(point) = value" is
/// meaningless for such a point and two different points give the same answer.
#[test]
fn point_with_surplus_coordinates_is_rejected() {
    let mut rng = test_rng();
    let nv = 4;
    let params = MultilinearPC::<E>::setup(nv, &mut rng);
    let (ck, vk) = MultilinearPC::<E>::trim(&params, nv);
    let poly = DenseMultilinearExtension::<Fr>::rand(nv, &mut rng);
    let point: Vec<Fr> = (0..nv).map(|_| Fr::rand(&mut rng)).collect();
    let com = MultilinearPC::commit(&ck, &poly);
    let proof = MultilinearPC::open(&ck, &poly, &point);
    let value = poly.evaluate(&point);

    let mut long_point = point.clone();
    long_point.push(Fr::rand(&mut rng));
    long_point.push(Fr::rand(&mut rng));
    assert!(
        !MultilinearPC::check(&vk, &com, &long_point, value, &proof),
        "an opening at a point with {} coordinates was accepted for a {}-variate commitment",
        long_point.len(),
        nv
    );
}

/// The `nv` field of the commitment is never read by the verifier.
#[test]
fn commitment_nv_is_checked() {
    let mut rng = test_rng();
    let nv = 4;
    let params = MultilinearPC::<E>::setup(nv, &mut rng);
    let (ck, vk) = MultilinearPC::<E>::trim(&params, nv);
    let poly = DenseMultilinearExtension::<Fr>::rand(nv, &mut rng);
    let point: Vec<Fr> = (0..nv).map(|_| Fr::rand(&mut rng)).collect();
    let mut com = MultilinearPC::commit(&ck, &poly);
    let proof = MultilinearPC::open(&ck, &poly, &point);
    let value = poly.evaluate(&point);

    com.nv = 17;
    assert!(
        !MultilinearPC::check(&vk, &com, &point, value, &proof),
        "a commitment that declares 17 variables was accepted by a verifier key for 4"
    );
}

/// Consequence of the two previous points together with the identity being a legal proof
/// element: a commitment to a 4-variate polynomial (com.nv = 4, made with the 4-variable
/// committer key) is accepted by the verifier key for SIX variables at a 6-coordinate point
/// whose first two coordinates are arbitrary.
#[test]
fn commitment_for_fewer_variables_is_rejected_by_larger_key() {
    let mut rng = test_rng();
    let params = MultilinearPC::<E>::setup(6, &mut rng);
    let (ck4, _vk4) = MultilinearPC::<E>::trim(&params, 4);
    let (_ck6, vk6) = MultilinearPC::<E>::trim(&params, 6);
    let poly = DenseMultilinearExtension::<Fr>::rand(4, &mut rng);
    let point4: Vec<Fr> = (0..4).map(|_| Fr::rand(&mut rng)).collect();
    let com = MultilinearPC::commit(&ck4, &poly);
    assert_eq!(com.nv, 4);
    let proof4 = MultilinearPC::open(&ck4, &poly, &point4);
    let value = poly.evaluate(&point4);

    let mut point6 = vec![Fr::rand(&mut rng), Fr::rand(&mut rng)];
    point6.extend_from_slice(&point4);
    let mut proofs = vec![G2Affine::zero(), G2Affine::zero()];
    proofs.extend_from_slice(&proof4.proofs);
    let proof6 = Proof::<E> { proofs };

    assert!(
        !MultilinearPC::check(&vk6, &com, &point6, value, &proof6),
        "a commitment with nv = 4 was accepted under the verifier key for 6 variables"
    );
}
