//! DEMO 3 -- `batch_check` (and therefore `check_combinations`) of MarlinKZG10, SonicKZG10 and
//! InnerProductArgPC groups the query set by POINT LABEL and keeps the first point it meets under
//! that label (`entry(point_label).or_insert((point, ..))`).  When a query set carries two
//! different points under one point label, every query at the second point is silently dropped:
//! its claimed value is never looked up, never checked, and the verifier returns Ok(true).
//!
//! Here the query set is {(p, ("z", z1)), (p, ("z", z2))} with z1 != z2 and the evaluations are
//! {(p, z1) -> p(z1), (p, z2) -> GARBAGE}: every claim of the query set has a value, none is
//! surplus, one is false, and batch_check accepts.
//!
//! Run:
//!   CARGO_NET_OFFLINE=true cargo test --offline -p ark-poly-commit -j 4 \
//!       --test audit3_demo_3_point_label -- --test-threads 4

use ark_bls12_381::Bls12_381;
use ark_crypto_primitives::sponge::{
    poseidon::{PoseidonConfig, PoseidonSponge},
    CryptographicSponge,
};
use ark_ec::pairing::Pairing;
use ark_ff::PrimeField;
use ark_poly::{univariate::DensePolynomial, DenseUVPolynomial, Polynomial};
use ark_poly_commit::{
    ipa_pc::InnerProductArgPC, marlin_pc::MarlinKZG10, sonic_pc::SonicKZG10, Evaluations,
    LabeledPolynomial, LinearCombination, PolynomialCommitment, QuerySet,
};
use ark_std::{test_rng, UniformRand};
use blake2::Blake2s256;

type BlsFr = <Bls12_381 as Pairing>::ScalarField;
type EdFr = ark_ed_on_bls12_381::Fr;
type Marlin = MarlinKZG10<Bls12_381, DensePolynomial<BlsFr>>;
type Sonic = SonicKZG10<Bls12_381, DensePolynomial<BlsFr>>;
type Ipa = InnerProductArgPC<ark_ed_on_bls12_381::EdwardsAffine, Blake2s256, DensePolynomial<EdFr>>;

fn test_sponge<F: PrimeField>() -> PoseidonSponge<F> {
    let full_rounds = 8;
    let partial_rounds = 31;
    let alpha = 17;
    let mds = vec![
        vec![F::one(), F::zero(), F::one()],
        vec![F::one(), F::one(), F::zero()],
        vec![F::zero(), F::one(), F::one()],
    ];
    let mut v = Vec::new();
    let mut ark_rng = test_rng();
    for _ in 0..(full_rounds + partial_rounds) {
        let mut res = Vec::new();
        for _ in 0..3 {
            res.push(F::rand(&mut ark_rng));
        }
        v.push(res);
    }
    let config = PoseidonConfig::new(full_rounds, partial_rounds, alpha, mds, v, 2, 1);
    PoseidonSponge::new(&config)
}

fn batch_check_two_points_one_label<F, PC>() -> Result<bool, PC::Error>
where
    F: PrimeField,
    PC: PolynomialCommitment<F, DensePolynomial<F>>,
    DensePolynomial<F>: Polynomial<F, Point = F>,
{
    let rng = &mut test_rng();
    let degree = 7;
    let pp = PC::setup(degree, None, rng).unwrap();
    let (ck, vk) = PC::trim(&pp, degree, 0, None).unwrap();
    let p = LabeledPolynomial::new("p".into(), DensePolynomial::rand(degree, rng), None, None);
    let (comms, states) = PC::commit(&ck, [&p], None).unwrap();

    let (a, b) = (F::rand(rng), F::rand(rng));
    // z1 is the point that sorts first, i.e. the one the verifier keeps.
    let (z1, z2) = if a < b { (a, b) } else { (b, a) };
    assert_ne!(z1, z2);

    let mut query_set = QuerySet::new();
    query_set.insert(("p".to_string(), ("z".to_string(), z1)));
    query_set.insert(("p".to_string(), ("z".to_string(), z2)));

    let garbage = p.evaluate(&z2) + F::from(12345u64);
    let mut evaluations = Evaluations::new();
    evaluations.insert(("p".to_string(), z1), p.evaluate(&z1));
    evaluations.insert(("p".to_string(), z2), garbage); // FALSE claim

    let proof = PC::batch_open(
        &ck,
        [&p],
        &comms,
        &query_set,
        &mut test_sponge::<F>(),
        &states,
        None,
    )
    .unwrap();

    PC::batch_check(
        &vk,
        &comms,
        &query_set,
        &evaluations,
        &proof,
        &mut test_sponge::<F>(),
        rng,
    )
}

fn check_combinations_two_points_one_label<F, PC>() -> Result<bool, PC::Error>
where
    F: PrimeField,
    PC: PolynomialCommitment<F, DensePolynomial<F>>,
    DensePolynomial<F>: Polynomial<F, Point = F>,
{
    let rng = &mut test_rng();
    let degree = 7;
    let pp = PC::setup(degree, None, rng).unwrap();
    let (ck, vk) = PC::trim(&pp, degree, 0, None).unwrap();
    let p = LabeledPolynomial::new("p".into(), DensePolynomial::rand(degree, rng), None, None);
    let q = LabeledPolynomial::new("q".into(), DensePolynomial::rand(degree, rng), None, None);
    let (comms, states) = PC::commit(&ck, [&p, &q], None).unwrap();

    let lc = LinearCombination::new("p_plus_q", vec![(F::one(), "p"), (F::one(), "q")]);
    let lcs = [lc];

    let (a, b) = (F::rand(rng), F::rand(rng));
    let (z1, z2) = if a < b { (a, b) } else { (b, a) };

    let mut query_set = QuerySet::new();
    query_set.insert(("p_plus_q".to_string(), ("z".to_string(), z1)));
    query_set.insert(("p_plus_q".to_string(), ("z".to_string(), z2)));

    let mut evaluations = Evaluations::new();
    evaluations.insert(
        ("p_plus_q".to_string(), z1),
        p.evaluate(&z1) + q.evaluate(&z1),
    );
    evaluations.insert(("p_plus_q".to_string(), z2), F::from(7u64)); // FALSE claim

    let proof = PC::open_combinations(
        &ck,
        &lcs,
        [&p, &q],
        &comms,
        &query_set,
        &mut test_sponge::<F>(),
        &states,
        None,
    )
    .unwrap();

    PC::check_combinations(
        &vk,
        &lcs,
        &comms,
        &query_set,
        &evaluations,
        &proof,
        &mut test_sponge::<F>(),
        rng,
    )
}

macro_rules! must_not_accept {
    ($name:ident, $f:ident, $fr:ty, $pc:ty) => {
        #[test]
        fn $name() {
            let r = $f::<$fr, $pc>();
            assert!(
                !matches!(r, Ok(true)),
                "the verifier returned Ok(true) although the claimed value at the second point is false"
            );
        }
    };
}

must_not_accept!(marlin_batch_check, batch_check_two_points_one_label, BlsFr, Marlin);
must_not_accept!(sonic_batch_check, batch_check_two_points_one_label, BlsFr, Sonic);
must_not_accept!(ipa_batch_check, batch_check_two_points_one_label, EdFr, Ipa);
must_not_accept!(marlin_check_combinations, check_combinations_two_points_one_label, BlsFr, Marlin);
must_not_accept!(sonic_check_combinations, check_combinations_two_points_one_label, BlsFr, Sonic);
must_not_accept!(ipa_check_combinations, check_combinations_two_points_one_label, EdFr, Ipa);
