//! DEMO 1 -- InnerProductArgPC::check_combinations accepts a FALSE evaluation of a committed
//! polynomial when the prover ships a commitment whose `shifted_comm` Option does not agree with
//! the degree bound the verifier attached to it.
//!
//! `check_combinations` pushes one or two group elements per linear combination into a flat list
//! depending on `commitment.shifted_comm.is_some()`, but `construct_labeled_commitments` re-reads
//! that flat list depending on `degree_bound.is_some()`.  Nothing checks that the two agree, so a
//! surplus `shifted_comm` shifts every later linear combination by one slot: the commitment of
//! the NEXT linear combination is replaced by the attacker-chosen group element.
//!
//! Run:
//!   CARGO_NET_OFFLINE=true cargo test --offline -p ark-poly-commit -j 4 \
//!       --test audit3_demo_1_ipa_lc_misalign -- --test-threads 4

use ark_crypto_primitives::sponge::{
    poseidon::{PoseidonConfig, PoseidonSponge},
    CryptographicSponge,
};
use ark_ed_on_bls12_381::{EdwardsAffine, Fr};
use ark_ff::PrimeField;
use ark_poly::{univariate::DensePolynomial, DenseUVPolynomial, Polynomial};
use ark_poly_commit::{
    ipa_pc::{Commitment, InnerProductArgPC},
    Evaluations, LabeledCommitment, LabeledPolynomial, LinearCombination, PolynomialCommitment,
    QuerySet,
};
use ark_std::{test_rng, UniformRand};
use blake2::Blake2s256;

type Poly = DensePolynomial<Fr>;
type PC = InnerProductArgPC<EdwardsAffine, Blake2s256, Poly>;

fn test_sponge<F: PrimeField>() -> PoseidonSponge<F> {
    let full_rounds = 8;
    let partial_rounds = 31;
    let alpha = 17;
    let mds = vec![
        vec![F::one(), F::zero(), F::one()],
        vec![F::one(), F::one(), F::zero()],
        vec![F::zero(), F::one(), F::one()],
    ];
    let mut v = Vec::new();
    let mut ark_rng = test_rng();
    for _ in 0..(full_rounds + partial_rounds) {
        let mut res = Vec::new();
        for _ in 0..3 {
            res.push(F::rand(&mut ark_rng));
        }
        v.push(res);
    }
    let config = PoseidonConfig::new(full_rounds, partial_rounds, alpha, mds, v, 2, 1);
    PoseidonSponge::new(&config)
}

#[test]
fn ipa_check_combinations_substitutes_the_next_commitment() {
    let rng = &mut test_rng();
    let degree = 7;
    let pp = PC::setup(degree, None, rng).unwrap();
    let (ck, vk) = PC::trim(&pp, degree, 0, None).unwrap();

    // The polynomials the verifier holds commitments to: p and q (no degree bounds, no hiding).
    let p = LabeledPolynomial::new("p".to_string(), Poly::rand(degree, rng), None, None);
    let q = LabeledPolynomial::new("q".to_string(), Poly::rand(degree, rng), None, None);
    // The polynomial the attacker wants to pass off as q.
    let q_fake = LabeledPolynomial::new("q".to_string(), Poly::rand(degree, rng), None, None);

    let (honest_comms, _) = PC::commit(&ck, [&p, &q], None).unwrap();
    let (attack_comms, attack_states) = PC::commit(&ck, [&p, &q_fake], None).unwrap();
    assert_ne!(
        honest_comms[1].commitment(),
        attack_comms[1].commitment(),
        "q and q_fake must be different commitments"
    );

    // Two equations: lc_p = p, lc_q = q, both queried at z.
    let lc_p = LinearCombination::new("lc_p", vec![(Fr::from(1u64), "p")]);
    let lc_q = LinearCombination::new("lc_q", vec![(Fr::from(1u64), "q")]);
    let lcs = [lc_p, lc_q];
    let z = Fr::rand(rng);
    let mut query_set = QuerySet::new();
    query_set.insert(("lc_p".to_string(), ("z".to_string(), z)));
    query_set.insert(("lc_q".to_string(), ("z".to_string(), z)));

    let true_q_at_z = q.evaluate(&z);
    let fake_q_at_z = q_fake.evaluate(&z);
    assert_ne!(true_q_at_z, fake_q_at_z);

    // The claim: q(z) = q_fake(z).  It is FALSE for the committed q.
    let mut evaluations = Evaluations::new();
    evaluations.insert(("lc_p".to_string(), z), p.evaluate(&z));
    evaluations.insert(("lc_q".to_string(), z), fake_q_at_z);

    // The attacker opens (p, q_fake) honestly...
    let proof = PC::open_combinations(
        &ck,
        &lcs,
        [&p, &q_fake],
        &attack_comms,
        &query_set,
        &mut test_sponge::<Fr>(),
        &attack_states,
        None,
    )
    .unwrap();

    // ... and ships, as "the commitment to p", a struct with a surplus `shifted_comm` that holds
    // the commitment to q_fake.  The verifier knows p has no degree bound and labels it so.  The
    // commitment to q is the HONEST one.
    let malformed_p = LabeledCommitment::new(
        "p".to_string(),
        Commitment {
            comm: honest_comms[0].commitment().comm,
            shifted_comm: Some(attack_comms[1].commitment().comm),
        },
        None,
    );
    let verifier_comms = vec![malformed_p, honest_comms[1].clone()];

    // Sanity: with well-formed commitments the false claim is rejected.
    let sane = PC::check_combinations(
        &vk,
        &lcs,
        &honest_comms,
        &query_set,
        &evaluations,
        &proof,
        &mut test_sponge::<Fr>(),
        rng,
    )
    .unwrap();
    assert!(!sane, "sanity: the false claim is rejected on honest commitments");

    let result = PC::check_combinations(
        &vk,
        &lcs,
        &verifier_comms,
        &query_set,
        &evaluations,
        &proof,
        &mut test_sponge::<Fr>(),
        rng,
    );
    assert!(
        !matches!(result, Ok(true)),
        "check_combinations accepted q(z) = {} although the committed q has q(z) = {}",
        fake_q_at_z,
        true_q_at_z
    );
}
