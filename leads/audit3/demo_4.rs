//! DEMO 4 (low severity) -- `check_combinations` of MarlinKZG10, SonicKZG10 and InnerProductArgPC
//! accepts a list of linear combinations in which two DIFFERENT combinations carry the same label.
//! The combined commitments are put in a label-keyed map by `batch_check`, the last one wins, and
//! the earlier equation is never checked: with lcs = [L := p, L := q] and the claim L(z) = q(z),
//! the equation p(z) = q(z) is false but the verifier returns Ok(true).
//!
//! Run:
//!   CARGO_NET_OFFLINE=true cargo test --offline -p ark-poly-commit -j 4 \
//!       --test audit3_demo_4_duplicate_lc_label -- --test-threads 4

use ark_bls12_381::Bls12_381;
use ark_crypto_primitives::sponge::{
    poseidon::{PoseidonConfig, PoseidonSponge},
    CryptographicSponge,
};
use ark_ec::pairing::Pairing;
use ark_ff::PrimeField;
use ark_poly::{univariate::DensePolynomial, DenseUVPolynomial, Polynomial};
use ark_poly_commit::{
    ipa_pc::InnerProductArgPC, marlin_pc::MarlinKZG10, sonic_pc::SonicKZG10, Evaluations,
    LabeledPolynomial, LinearCombination, PolynomialCommitment, QuerySet,
};
use ark_std::{test_rng, UniformRand};
use blake2::Blake2s256;

type BlsFr = <Bls12_381 as Pairing>::ScalarField;
type EdFr = ark_ed_on_bls12_381::Fr;
type Marlin = MarlinKZG10<Bls12_381, DensePolynomial<BlsFr>>;
type Sonic = SonicKZG10<Bls12_381, DensePolynomial<BlsFr>>;
type Ipa = InnerProductArgPC<ark_ed_on_bls12_381::EdwardsAffine, Blake2s256, DensePolynomial<EdFr>>;

fn test_sponge<F: PrimeField>() -> PoseidonSponge<F> {
    let full_rounds = 8;
    let partial_rounds = 31;
    let alpha = 17;
    let mds = vec![
        vec![F::one(), F::zero(), F::one()],
        vec![F::one(), F::one(), F::zero()],
        vec![F::zero(), F::one(), F::one()],
    ];
    let mut v = Vec::new();
    let mut ark_rng = test_rng();
    for _ in 0..(full_rounds + partial_rounds) {
        let mut res = Vec::new();
        for _ in 0..3 {
            res.push(F::rand(&mut ark_rng));
        }
        v.push(res);
    }
    let config = PoseidonConfig::new(full_rounds, partial_rounds, alpha, mds, v, 2, 1);
    PoseidonSponge::new(&config)
}

fn duplicate_lc_label<F, PC>() -> Result<bool, PC::Error>
where
    F: PrimeField,
    PC: PolynomialCommitment<F, DensePolynomial<F>>,
    DensePolynomial<F>: Polynomial<F, Point = F>,
{
    let rng = &mut test_rng();
    let degree = 7;
    let pp = PC::setup(degree, None, rng).unwrap();
    let (ck, vk) = PC::trim(&pp, degree, 0, None).unwrap();
    let p = LabeledPolynomial::new("p".into(), DensePolynomial::rand(degree, rng), None, None);
    let q = LabeledPolynomial::new("q".into(), DensePolynomial::rand(degree, rng), None, None);
    let (comms, states) = PC::commit(&ck, [&p, &q], None).unwrap();

    // Two different equations under one label.
    let lcs = [
        LinearCombination::new("L", vec![(F::one(), "p")]),
        LinearCombination::new("L", vec![(F::one(), "q")]),
    ];
    let z = F::rand(rng);
    assert_ne!(p.evaluate(&z), q.evaluate(&z));

    let mut query_set = QuerySet::new();
    query_set.insert(("L".to_string(), ("z".to_string(), z)));
    let mut evaluations = Evaluations::new();
    evaluations.insert(("L".to_string(), z), q.evaluate(&z)); // false for L := p

    let proof = PC::open_combinations(
        &ck,
        &lcs,
        [&p, &q],
        &comms,
        &query_set,
        &mut test_sponge::<F>(),
        &states,
        None,
    )
    .unwrap();

    PC::check_combinations(
        &vk,
        &lcs,
        &comms,
        &query_set,
        &evaluations,
        &proof,
        &mut test_sponge::<F>(),
        rng,
    )
}

macro_rules! must_not_accept {
    ($name:ident, $f:ident, $fr:ty, $pc:ty) => {
        #[test]
        fn $name() {
            let r = $f::<$fr, $pc>();
            assert!(
                !matches!(r, Ok(true)),
                "check_combinations returned Ok(true) although the first equation labelled L is false"
            );
        }
    };
}

must_not_accept!(marlin_duplicate_lc_label, duplicate_lc_label, BlsFr, Marlin);
must_not_accept!(sonic_duplicate_lc_label, duplicate_lc_label, BlsFr, Sonic);
must_not_accept!(ipa_duplicate_lc_label, duplicate_lc_label, EdFr, Ipa);
