//! DEMO 2 -- `check` of MarlinKZG10, SonicKZG10 and InnerProductArgPC zips `commitments` with
//! `values` and silently stops at the shorter list.
//!
//!  (a) two commitments (p, q), ONE value: the opening proof of p alone is accepted for the pair,
//!      q is never looked at;
//!  (b) one commitment, TWO values: the surplus (arbitrary) value is ignored;
//!  (c) any list of commitments, NO value: the all-default proof (witness = identity) is
//!      accepted by the two pairing-based schemes without any knowledge of the polynomials.
//!
//! Hyrax was repaired for exactly this (IncorrectInputLength when the counts differ).
//!
//! Run:
//!   CARGO_NET_OFFLINE=true cargo test --offline -p ark-poly-commit -j 4 \
//!       --test audit3_demo_2_values_zip -- --test-threads 4

use ark_bls12_381::Bls12_381;
use ark_crypto_primitives::sponge::{
    poseidon::{PoseidonConfig, PoseidonSponge},
    CryptographicSponge,
};
use ark_ec::pairing::Pairing;
use ark_ff::PrimeField;
use ark_poly::{univariate::DensePolynomial, DenseUVPolynomial, Polynomial};
use ark_poly_commit::{
    ipa_pc::InnerProductArgPC, marlin_pc::MarlinKZG10, sonic_pc::SonicKZG10, LabeledPolynomial,
    PolynomialCommitment,
};
use ark_std::{test_rng, UniformRand};
use blake2::Blake2s256;

type BlsFr = <Bls12_381 as Pairing>::ScalarField;
type EdFr = ark_ed_on_bls12_381::Fr;
type Marlin = MarlinKZG10<Bls12_381, DensePolynomial<BlsFr>>;
type Sonic = SonicKZG10<Bls12_381, DensePolynomial<BlsFr>>;
type Ipa = InnerProductArgPC<ark_ed_on_bls12_381::EdwardsAffine, Blake2s256, DensePolynomial<EdFr>>;

fn test_sponge<F: PrimeField>() -> PoseidonSponge<F> {
    let full_rounds = 8;
    let partial_rounds = 31;
    let alpha = 17;
    let mds = vec![
        vec![F::one(), F::zero(), F::one()],
        vec![F::one(), F::one(), F::zero()],
        vec![F::zero(), F::one(), F::one()],
    ];
    let mut v = Vec::new();
    let mut ark_rng = test_rng();
    for _ in 0..(full_rounds + partial_rounds) {
        let mut res = Vec::new();
        for _ in 0..3 {
            res.push(F::rand(&mut ark_rng));
        }
        v.push(res);
    }
    let config = PoseidonConfig::new(full_rounds, partial_rounds, alpha, mds, v, 2, 1);
    PoseidonSponge::new(&config)
}

/// (a): commitments (p, q) but a single value; proof = honest opening of p alone.
fn fewer_values_than_commitments<F, PC>() -> Result<bool, PC::Error>
where
    F: PrimeField,
    PC: PolynomialCommitment<F, DensePolynomial<F>>,
    DensePolynomial<F>: Polynomial<F, Point = F>,
{
    let rng = &mut test_rng();
    let degree = 7;
    let pp = PC::setup(degree, None, rng).unwrap();
    let (ck, vk) = PC::trim(&pp, degree, 0, None).unwrap();
    let p = LabeledPolynomial::new("p".into(), DensePolynomial::rand(degree, rng), None, None);
    let q = LabeledPolynomial::new("q".into(), DensePolynomial::rand(degree, rng), None, None);
    let (comms, states) = PC::commit(&ck, [&p, &q], None).unwrap();
    let z = F::rand(rng);
    let proof_p_only = PC::open(
        &ck,
        [&p],
        &comms[..1],
        &z,
        &mut test_sponge::<F>(),
        &states[..1],
        None,
    )
    .unwrap();
    // Two commitments, one value.
    PC::check(
        &vk,
        &comms,
        &z,
        [p.evaluate(&z)],
        &proof_p_only,
        &mut test_sponge::<F>(),
        None,
    )
}

/// (b): a single commitment but two values, the second one arbitrary.
fn more_values_than_commitments<F, PC>() -> Result<bool, PC::Error>
where
    F: PrimeField,
    PC: PolynomialCommitment<F, DensePolynomial<F>>,
    DensePolynomial<F>: Polynomial<F, Point = F>,
{
    let rng = &mut test_rng();
    let degree = 7;
    let pp = PC::setup(degree, None, rng).unwrap();
    let (ck, vk) = PC::trim(&pp, degree, 0, None).unwrap();
    let p = LabeledPolynomial::new("p".into(), DensePolynomial::rand(degree, rng), None, None);
    let (comms, states) = PC::commit(&ck, [&p], None).unwrap();
    let z = F::rand(rng);
    let proof = PC::open(
        &ck,
        [&p],
        &comms,
        &z,
        &mut test_sponge::<F>(),
        &states,
        None,
    )
    .unwrap();
    PC::check(
        &vk,
        &comms,
        &z,
        [p.evaluate(&z), F::from(0xdead_beefu64)],
        &proof,
        &mut test_sponge::<F>(),
        None,
    )
}

/// (c): two commitments, no value at all, and the all-default proof.
fn no_values_default_proof<F, PC>() -> Result<bool, PC::Error>
where
    F: PrimeField,
    PC: PolynomialCommitment<F, DensePolynomial<F>>,
    PC::Proof: Default,
    DensePolynomial<F>: Polynomial<F, Point = F>,
{
    let rng = &mut test_rng();
    let degree = 7;
    let pp = PC::setup(degree, None, rng).unwrap();
    let (ck, vk) = PC::trim(&pp, degree, 0, None).unwrap();
    let p = LabeledPolynomial::new("p".into(), DensePolynomial::rand(degree, rng), None, None);
    let q = LabeledPolynomial::new("q".into(), DensePolynomial::rand(degree, rng), None, None);
    let (comms, _) = PC::commit(&ck, [&p, &q], None).unwrap();
    let z = F::rand(rng);
    PC::check(
        &vk,
        &comms,
        &z,
        Vec::<F>::new(),
        &PC::Proof::default(),
        &mut test_sponge::<F>(),
        None,
    )
}

macro_rules! must_not_accept {
    ($name:ident, $f:ident, $fr:ty, $pc:ty) => {
        #[test]
        fn $name() {
            let r = $f::<$fr, $pc>();
            assert!(
                !matches!(r, Ok(true)),
                "check returned Ok(true) although the number of values differs from the number of commitments"
            );
        }
    };
}

must_not_accept!(marlin_fewer_values, fewer_values_than_commitments, BlsFr, Marlin);
must_not_accept!(sonic_fewer_values, fewer_values_than_commitments, BlsFr, Sonic);
must_not_accept!(ipa_fewer_values, fewer_values_than_commitments, EdFr, Ipa);

must_not_accept!(marlin_more_values, more_values_than_commitments, BlsFr, Marlin);
must_not_accept!(sonic_more_values, more_values_than_commitments, BlsFr, Sonic);
must_not_accept!(ipa_more_values, more_values_than_commitments, EdFr, Ipa);

must_not_accept!(marlin_no_values_default_proof, no_values_default_proof, BlsFr, Marlin);
must_not_accept!(sonic_no_values_default_proof, no_values_default_proof, BlsFr, Sonic);
