//! AUDIT demo 3: two more shape defects of `LinearCodePCS::check`.
//!
//! (a) `commitments.into_iter().zip(values)` stops at the shorter list: commitments without a
//!     claimed value are skipped and the verifier still answers Ok(true) (also for NO value at all).
//! (b) the number of coordinates of a multilinear point is never compared with
//!     log2(n_rows * n_cols): `tensor` splits the point at log2(n_cols) and `inner_product(b, column)`
//!     truncates to the shorter operand, so with a point that is one coordinate short only the upper
//!     half of the committed matrix takes part in the check.
//!
//! Both tests assert rejection and FAIL on the unchanged tree.
#![allow(unused_imports)]

use ark_bls12_377::Fr;
use ark_crypto_primitives::{
    crh::{sha256::Sha256, CRHScheme, TwoToOneCRHScheme},
    merkle_tree::{ByteDigestConverter, Config, MerkleTree, Path},
    sponge::{
        poseidon::{PoseidonConfig, PoseidonSponge},
        CryptographicSponge,
    },
};
use ark_ff::{Field, One, PrimeField, Zero};
use ark_pcs_bench_templates::{FieldToBytesColHasher, LeafIdentityHasher};
use ark_poly::{
    evaluations::multivariate::{DenseMultilinearExtension, MultilinearExtension},
    EvaluationDomain, GeneralEvaluationDomain, DenseUVPolynomial, Polynomial,
    univariate::DensePolynomial,
};
use ark_poly_commit::{
    linear_codes::{LigeroPCParams, LinearCodePCS, MultilinearLigero, UnivariateLigero},
    LabeledCommitment, LabeledPolynomial, PolynomialCommitment,
};
use ark_serialize::{CanonicalDeserialize, CanonicalSerialize};
use ark_std::{test_rng, UniformRand};
use blake2::Blake2s256;

type LeafH = LeafIdentityHasher;
type CompressH = Sha256;
type ColHasher<F> = FieldToBytesColHasher<F, Blake2s256>;

struct MTConfig;
impl Config for MTConfig {
    type Leaf = Vec<u8>;
    type LeafDigest = <LeafH as CRHScheme>::Output;
    type LeafInnerDigestConverter = ByteDigestConverter<Self::LeafDigest>;
    type InnerDigest = <CompressH as TwoToOneCRHScheme>::Output;
    type LeafHash = LeafH;
    type TwoToOneHash = CompressH;
}

type UniPoly = DensePolynomial<Fr>;
type LigeroPCS =
    LinearCodePCS<UnivariateLigero<Fr, MTConfig, UniPoly, ColHasher<Fr>>, Fr, UniPoly, MTConfig, ColHasher<Fr>>;

type MLPoly = DenseMultilinearExtension<Fr>;
type MLLigeroPCS =
    LinearCodePCS<MultilinearLigero<Fr, MTConfig, MLPoly, ColHasher<Fr>>, Fr, MLPoly, MTConfig, ColHasher<Fr>>;

fn test_sponge<F: PrimeField>() -> PoseidonSponge<F> {
    let full_rounds = 8;
    let partial_rounds = 31;
    let alpha = 17;
    let mds = vec![
        vec![F::one(), F::zero(), F::one()],
        vec![F::one(), F::one(), F::zero()],
        vec![F::zero(), F::one(), F::one()],
    ];
    let mut v = Vec::new();
    let mut ark_rng = test_rng();
    for _ in 0..(full_rounds + partial_rounds) {
        let mut res = Vec::new();
        for _ in 0..3 {
            res.push(F::rand(&mut ark_rng));
        }
        v.push(res);
    }
    let config = PoseidonConfig::new(full_rounds, partial_rounds, alpha, mds, v, 2, 1);
    PoseidonSponge::new(&config)
}


fn tensor_vec(values: &[Fr]) -> Vec<Fr> {
    let mut layer = vec![Fr::one()];
    for z in values {
        let mut next: Vec<Fr> = layer.iter().map(|v| *v * (Fr::one() - z)).collect();
        next.extend(layer.iter().map(|v| *v * z));
        layer = next;
    }
    layer
}

#[test]
fn check_skips_commitments_that_have_no_claimed_value() {
    let rng = &mut test_rng();
    let pp: LigeroPCParams<Fr, MTConfig, ColHasher<Fr>> =
        LigeroPCParams::new(128, 4, true, (), (), ());
    let (ck, vk) = LigeroPCS::trim(&pp, 0, 0, None).unwrap();
    let p1 = LabeledPolynomial::new("p1".to_string(), UniPoly::rand(20, rng), None, None);
    let p2 = LabeledPolynomial::new("p2".to_string(), UniPoly::rand(20, rng), None, None);
    let (comms, states) = LigeroPCS::commit(&ck, [&p1, &p2], None).unwrap();
    let z = Fr::rand(rng);
    let proof = LigeroPCS::open(
        &ck,
        [&p1, &p2],
        &comms,
        &z,
        &mut test_sponge::<Fr>(),
        &states,
        None,
    )
    .unwrap();

    // sanity: the complete statement verifies
    assert!(LigeroPCS::check(
        &vk,
        &comms,
        &z,
        [p1.evaluate(&z), p2.evaluate(&z)],
        &proof,
        &mut test_sponge::<Fr>(),
        None
    )
    .unwrap());

    // two commitments, ONE value
    let one = LigeroPCS::check(
        &vk,
        &comms,
        &z,
        [p1.evaluate(&z)],
        &proof,
        &mut test_sponge::<Fr>(),
        None,
    );
    // two commitments, NO value (and not even a proof)
    let none = LigeroPCS::check(
        &vk,
        &comms,
        &z,
        Vec::<Fr>::new(),
        &Vec::new(),
        &mut test_sponge::<Fr>(),
        None,
    );
    println!("one value for two commitments: {one:?}; no value, empty proof: {none:?}");
    assert!(!matches!(one, Ok(true)), "2 commitments / 1 value accepted");
    assert!(!matches!(none, Ok(true)), "2 commitments / 0 values / 0 proofs accepted");
}

/// Emulates the prover for a 2 x 4 coefficient matrix under multilinear Ligero (rho_inv = 4, no
/// well-formedness round) for an arbitrary left vector `b`, mirroring the verifier's transcript.
fn open_2x4(
    rows: &[Vec<Fr>; 2],
    b: &[Fr],
    point: &Vec<Fr>,
) -> (
    LabeledCommitment<<MLLigeroPCS as PolynomialCommitment<Fr, MLPoly>>::Commitment>,
    <MLLigeroPCS as PolynomialCommitment<Fr, MLPoly>>::Proof,
    Vec<Fr>,
) {
    let (n_rows, n_cols, n_ext_cols) = (2usize, 4usize, 16usize);
    let domain = GeneralEvaluationDomain::<Fr>::new(n_ext_cols).unwrap();
    let ext_rows: Vec<Vec<Fr>> = rows.iter().map(|r| domain.fft(r)).collect();
    let cols: Vec<Vec<Fr>> = (0..n_ext_cols)
        .map(|j| ext_rows.iter().map(|r| r[j]).collect())
        .collect();
    let leaves: Vec<Vec<u8>> = cols
        .iter()
        .map(|c| <ColHasher<Fr> as CRHScheme>::evaluate(&(), c.clone()).unwrap())
        .collect();
    let tree = MerkleTree::<MTConfig>::new(&(), &(), leaves).unwrap();
    let root = tree.root();

    // v = b . M  (b may be shorter than the number of rows: that is the point of the demo)
    let v: Vec<Fr> = (0..n_cols)
        .map(|j| b.iter().zip(rows.iter()).map(|(bi, r)| *bi * r[j]).sum())
        .collect();

    // transcript, exactly as in `check` with check_well_formedness = false
    let mut sponge = test_sponge::<Fr>();
    sponge.absorb(&ark_poly_commit::to_bytes!(&root).unwrap());
    sponge.absorb(point);
    sponge.absorb(&v);
    let t = 16; // min(t(128 bits, distance 3/4), n_ext_cols)
    let mut indices = Vec::new();
    for _ in 0..t {
        let bytes = sponge.squeeze_bytes(1); // get_num_bytes(16) = 1
        sponge.absorb(&bytes);
        indices.push(bytes[0] as usize % n_ext_cols);
    }
    let paths: Vec<Path<MTConfig>> = indices
        .iter()
        .map(|i| tree.generate_proof(*i).unwrap())
        .collect();
    let columns: Vec<Vec<Fr>> = indices.iter().map(|i| cols[*i].clone()).collect();

    let mut bytes = Vec::new();
    n_rows.serialize_compressed(&mut bytes).unwrap();
    n_cols.serialize_compressed(&mut bytes).unwrap();
    n_ext_cols.serialize_compressed(&mut bytes).unwrap();
    root.serialize_compressed(&mut bytes).unwrap();
    let commitment =
        <MLLigeroPCS as PolynomialCommitment<Fr, MLPoly>>::Commitment::deserialize_compressed(
            &bytes[..],
        )
        .unwrap();

    let mut bytes = Vec::new();
    1u64.serialize_compressed(&mut bytes).unwrap();
    paths.serialize_compressed(&mut bytes).unwrap();
    v.serialize_compressed(&mut bytes).unwrap();
    columns.serialize_compressed(&mut bytes).unwrap();
    Option::<Vec<Fr>>::None.serialize_compressed(&mut bytes).unwrap();
    let proof =
        <MLLigeroPCS as PolynomialCommitment<Fr, MLPoly>>::Proof::deserialize_compressed(&bytes[..])
            .unwrap();
    (
        LabeledCommitment::new("p".to_string(), commitment, None),
        proof,
        v,
    )
}

#[test]
fn check_accepts_a_point_with_too_few_coordinates() {
    let rng = &mut test_rng();
    let pp: LigeroPCParams<Fr, MTConfig, ColHasher<Fr>> =
        LigeroPCParams::new(128, 4, false, (), (), ());
    let (_ck, vk) = MLLigeroPCS::trim(&pp, 0, 0, None).unwrap();

    // a 3-variable multilinear polynomial laid out as a 2 x 4 matrix
    let evals: Vec<Fr> = (0..8).map(|_| Fr::rand(rng)).collect();
    let poly = MLPoly::from_evaluations_vec(3, evals.clone());
    let rows = [evals[..4].to_vec(), evals[4..].to_vec()];

    // sanity: the emulated prover is accepted on a well-formed 3-coordinate point with the true
    // value, and rejected with a wrong value
    let point3: Vec<Fr> = (0..3).map(|_| Fr::rand(rng)).collect();
    let (comm, proof, _) = open_2x4(&rows, &tensor_vec(&point3[2..]), &point3);
    let value3 = poly.evaluate(&point3);
    assert!(MLLigeroPCS::check(&vk, [&comm], &point3, [value3], &proof, &mut test_sponge::<Fr>(), None).unwrap());
    assert!(!matches!(
        MLLigeroPCS::check(&vk, [&comm], &point3, [value3 + Fr::one()], &proof, &mut test_sponge::<Fr>(), None),
        Ok(true)
    ));

    // the same commitment, "opened" at a point of only TWO coordinates: b = tensor([]) = [1]
    let point2: Vec<Fr> = point3[..2].to_vec();
    let (comm2, proof2, v2) = open_2x4(&rows, &[Fr::one()], &point2);
    let a = tensor_vec(&point2);
    let value2: Fr = v2.iter().zip(&a).map(|(x, y)| *x * y).sum();
    let res = MLLigeroPCS::check(&vk, [&comm2], &point2, [value2], &proof2, &mut test_sponge::<Fr>(), None);
    println!("3-variable polynomial, 2-coordinate point, value {value2}: {res:?}");
    assert!(
        !matches!(res, Ok(true)),
        "a point with 2 coordinates was accepted for a commitment to a 3-variable polynomial"
    );
}
