//! AUDIT demo 2: `streaming_kzg::VerifierKey::{verify, verify_multi_points}` never compare the
//! numbers of commitments / evaluation rows / evaluations per row / points with each other or with
//! the number of powers the key holds.  `VariableBaseMSM::msm_bigint` and `Iterator::zip` silently
//! truncate to the shorter operand.
//!
//! Every test asserts that the verifier REJECTS; they FAIL on the unchanged tree.

use ark_bls12_381::{Bls12_381, Fr};
use ark_ff::{Field, One, Zero};
use ark_poly::{
    univariate::{DenseOrSparsePolynomial, DensePolynomial},
    DenseUVPolynomial, Polynomial,
};
use ark_poly_commit::streaming_kzg::{
    CommitterKey, CommitterKeyStream, EvaluationProof, VerifierKey,
};
use ark_std::{test_rng, UniformRand};

type P = DensePolynomial<Fr>;

fn vanishing(points: &[Fr]) -> P {
    points.iter().fold(P::from_coefficients_vec(vec![Fr::one()]), |acc, a| {
        acc.naive_mul(&P::from_coefficients_vec(vec![-*a, Fr::one()]))
    })
}

/// `[p(tau)] G` as an `EvaluationProof` (the field of `Commitment` is private): opening on the empty
/// set of points divides by the constant polynomial 1.
fn as_proof(ck: &CommitterKey<Bls12_381>, p: &[Fr]) -> EvaluationProof<Bls12_381> {
    ck.open_multi_points(p, &[])
}

fn div_rem(f: &P, d: &P) -> (P, P) {
    DenseOrSparsePolynomial::from(f)
        .divide_with_q_and_r(&DenseOrSparsePolynomial::from(d))
        .unwrap()
}

/// (A) More evaluation points than the key supports: the vanishing polynomial Z (degree n) is
/// committed in G2 with only `max_eval_points + 1` powers, and the interpolant I with only
/// `max_eval_points` G1 powers; both MSMs silently drop the high coefficients.  The pairing check
/// then only tests  f - (I mod x^m) = q * (Z mod x^(m+1)),  which the prover can satisfy with
/// evaluations that are all wrong.
#[test]
fn multi_points_more_points_than_the_key_supports() {
    let rng = &mut test_rng();
    let max_eval_points = 2;
    let ck = CommitterKey::<Bls12_381>::new(16, max_eval_points, rng);
    let vk = VerifierKey::from(&ck);

    let f = P::rand(9, rng);
    let commitment = ck.commit(&f.coeffs);

    let points: Vec<Fr> = (0..max_eval_points + 1).map(|_| Fr::rand(rng)).collect();
    let z = vanishing(&points);
    // what the verifier really uses
    let z_trunc = P::from_coefficients_slice(&z.coeffs[..max_eval_points + 1]);
    let (q, r) = div_rem(&f, &z_trunc);
    assert!(r.coeffs.len() <= max_eval_points);

    // interpolant = r + c x^m ; the verifier drops the x^m coefficient.
    let mut i_coeffs = r.coeffs.clone();
    i_coeffs.resize(max_eval_points, Fr::zero());
    i_coeffs.push(Fr::from(777u64));
    let i_poly = P::from_coefficients_vec(i_coeffs);
    let claimed: Vec<Fr> = points.iter().map(|a| i_poly.evaluate(a)).collect();
    for (a, y) in points.iter().zip(&claimed) {
        assert_ne!(f.evaluate(a), *y, "the claim is supposed to be false");
    }
    let proof = as_proof(&ck, &q.coeffs);

    let res = vk.verify_multi_points(&[commitment], &points, &[claimed], &proof, &Fr::rand(rng));
    assert!(
        res.is_err(),
        "verify_multi_points accepted {} false evaluations (key supports {} points)",
        max_eval_points + 1,
        max_eval_points
    );
}

/// (B) More commitments than evaluation rows: `etas` has `evaluations.len()` entries, the MSM over
/// the commitments is truncated to that length, and the surplus commitment is never looked at.
#[test]
fn multi_points_surplus_commitment_is_ignored() {
    let rng = &mut test_rng();
    let ck = CommitterKey::<Bls12_381>::new(16, 3, rng);
    let vk = VerifierKey::from(&ck);
    let f = P::rand(9, rng).coeffs;
    let g = P::rand(9, rng).coeffs;
    let commitments = vec![ck.commit(&f), ck.commit(&g)];
    let points = vec![Fr::rand(rng), Fr::rand(rng)];
    let eta = Fr::rand(rng);
    let evals_f: Vec<Fr> = points
        .iter()
        .map(|a| P::from_coefficients_slice(&f).evaluate(a))
        .collect();
    // proof and evaluations for f only; nothing at all is claimed or proven about g
    let proof = ck.batch_open_multi_points(&[&f], &points, &eta);
    let res = vk.verify_multi_points(&commitments, &points, &[evals_f], &proof, &eta);
    assert!(
        res.is_err(),
        "two commitments but a single row of evaluations: the second commitment was ignored"
    );
}

/// (C1) An evaluation row longer than the list of points: the surplus evaluations are ignored.
#[test]
fn multi_points_surplus_evaluations_are_ignored() {
    let rng = &mut test_rng();
    let ck = CommitterKey::<Bls12_381>::new(16, 3, rng);
    let vk = VerifierKey::from(&ck);
    let f = P::rand(9, rng).coeffs;
    let commitments = vec![ck.commit(&f)];
    let points = vec![Fr::rand(rng)];
    let eta = Fr::rand(rng);
    let fa = P::from_coefficients_slice(&f).evaluate(&points[0]);
    let proof = ck.batch_open_multi_points(&[&f], &points, &eta);
    let row = vec![fa, Fr::from(31337u64), Fr::from(31338u64)];
    let res = vk.verify_multi_points(&commitments, &points, &[row], &proof, &eta);
    assert!(res.is_err(), "three evaluations for one point were accepted");
}

/// (C2) An evaluation row shorter than the list of points: the missing evaluation is silently
/// taken to be zero instead of the input being rejected.
#[test]
fn multi_points_missing_evaluation_is_taken_as_zero() {
    let rng = &mut test_rng();
    let ck = CommitterKey::<Bls12_381>::new(16, 3, rng);
    let vk = VerifierKey::from(&ck);
    let b = Fr::rand(rng);
    // f has a root in b
    let f = P::rand(8, rng)
        .naive_mul(&P::from_coefficients_vec(vec![-b, Fr::one()]))
        .coeffs;
    let commitments = vec![ck.commit(&f)];
    let points = vec![Fr::rand(rng), b];
    let eta = Fr::rand(rng);
    let fa = P::from_coefficients_slice(&f).evaluate(&points[0]);
    let proof = ck.batch_open_multi_points(&[&f], &points, &eta);
    let res = vk.verify_multi_points(&commitments, &points, &[vec![fa]], &proof, &eta);
    assert!(res.is_err(), "one evaluation for two points was accepted");
}

/// (D) A `VerifierKey` derived from a `CommitterKeyStream` holds ONE G1 power but all G2 powers.
/// With two points (well within the advertised limit) the interpolant has two coefficients and is
/// truncated to its constant term: the verifier accepts any pair of claims lying on a line through
/// (0, I(0)), whatever the slope.
#[test]
fn multi_points_stream_key_truncates_the_interpolant() {
    let rng = &mut test_rng();
    let ck = CommitterKey::<Bls12_381>::new(16, 3, rng);
    let stream_ck = CommitterKeyStream::from(&ck);
    let vk = VerifierKey::from(&stream_ck);

    let points = vec![Fr::rand(rng), Fr::rand(rng)];
    let z = vanishing(&points);
    let c = Fr::rand(rng);
    let g = P::rand(5, rng);
    // f = c + Z g, so f(a) = f(b) = c
    let f = &z.naive_mul(&g) + &P::from_coefficients_vec(vec![c]);
    let commitment = ck.commit(&f.coeffs);
    let slope = Fr::from(99u64);
    let claimed: Vec<Fr> = points.iter().map(|a| c + slope * a).collect();
    for (a, y) in points.iter().zip(&claimed) {
        assert_ne!(f.evaluate(a), *y);
    }
    let proof = as_proof(&ck, &g.coeffs);
    let res = vk.verify_multi_points(&[commitment], &points, &[claimed], &proof, &Fr::rand(rng));
    assert!(res.is_err(), "two false evaluations accepted by the stream-derived key");
}

/// (E) `verify` with a key that has a single G2 power (max_eval_points = 0, reachable through the
/// stream conversion): the MSM computing (tau - alpha) H drops tau H, the check degenerates to
/// e(C - mu G, H) = e(pi, -alpha H) and ANY value mu is provable.
#[test]
fn verify_with_a_single_g2_power_accepts_any_value() {
    let rng = &mut test_rng();
    let ck = CommitterKey::<Bls12_381>::new(16, 0, rng);
    let stream_ck = CommitterKeyStream::from(&ck);
    let vk = VerifierKey::from(&stream_ck);

    let f = P::rand(9, rng);
    let commitment = ck.commit(&f.coeffs);
    let alpha = Fr::rand(rng);
    let mu = f.evaluate(&alpha) + Fr::one(); // false
    // pi = [(mu - f(tau)) / alpha] G
    let mut coeffs: Vec<Fr> = f.coeffs.iter().map(|x| -*x).collect();
    coeffs[0] += mu;
    let inv = alpha.inverse().unwrap();
    coeffs.iter_mut().for_each(|x| *x *= inv);
    let proof = as_proof(&ck, &coeffs);
    let res = vk.verify(&commitment, &alpha, &mu, &proof);
    assert!(res.is_err(), "verify accepted f(alpha) + 1 as the value of f(alpha)");
}
