//! AUDIT demo 1: `LinearCodePCS::check` trusts `n_ext_cols` (and `n_rows`) from the prover's
//! commitment metadata and never compares it with the length of the codeword `w = E(v)` that the
//! verifier computes itself, nor with the height of the Merkle tree.
//!
//! A prover who declares `n_ext_cols = 1` is only ever queried at column 0 (`t = min(t, 1) = 1`,
//! every index is `x % 1 = 0`).  With column 0 = the zero column, any `v` whose encoding is zero
//! at position 0 passes, and `<v, a>` can be made to equal ANY value.  Neither the sponge nor the
//! well-formedness check help (`<r, 0> = 0 = E(0)[0]`).
//!
//! The tests assert that one and the same commitment cannot be opened to two different values at
//! the same point; they FAIL on the unchanged tree because both openings are accepted.

use ark_bls12_377::Fr;
use ark_crypto_primitives::{
    crh::{sha256::Sha256, CRHScheme, TwoToOneCRHScheme},
    merkle_tree::{ByteDigestConverter, Config, MerkleTree, Path},
    sponge::{
        poseidon::{PoseidonConfig, PoseidonSponge},
        CryptographicSponge,
    },
};
use ark_ff::{Field, One, PrimeField, Zero};
use ark_pcs_bench_templates::{FieldToBytesColHasher, LeafIdentityHasher};
use ark_poly::{
    evaluations::multivariate::{MultilinearExtension, SparseMultilinearExtension},
    univariate::DensePolynomial,
};
use ark_poly_commit::{
    linear_codes::{LigeroPCParams, LinearCodePCS, MultilinearBrakedown, UnivariateLigero},
    LabeledCommitment, LabeledPolynomial, PolynomialCommitment,
};
use ark_serialize::{CanonicalDeserialize, CanonicalSerialize};
use ark_std::{test_rng, UniformRand};
use blake2::Blake2s256;

type LeafH = LeafIdentityHasher;
type CompressH = Sha256;
type ColHasher<F> = FieldToBytesColHasher<F, Blake2s256>;

struct MTConfig;
impl Config for MTConfig {
    type Leaf = Vec<u8>;
    type LeafDigest = <LeafH as CRHScheme>::Output;
    type LeafInnerDigestConverter = ByteDigestConverter<Self::LeafDigest>;
    type InnerDigest = <CompressH as TwoToOneCRHScheme>::Output;
    type LeafHash = LeafH;
    type TwoToOneHash = CompressH;
}

type UniPoly = DensePolynomial<Fr>;
type LigeroPCS =
    LinearCodePCS<UnivariateLigero<Fr, MTConfig, UniPoly, ColHasher<Fr>>, Fr, UniPoly, MTConfig, ColHasher<Fr>>;

type MLPoly = SparseMultilinearExtension<Fr>;
type BrakedownPCS =
    LinearCodePCS<MultilinearBrakedown<Fr, MTConfig, MLPoly, ColHasher<Fr>>, Fr, MLPoly, MTConfig, ColHasher<Fr>>;

fn test_sponge<F: PrimeField>() -> PoseidonSponge<F> {
    let full_rounds = 8;
    let partial_rounds = 31;
    let alpha = 17;
    let mds = vec![
        vec![F::one(), F::zero(), F::one()],
        vec![F::one(), F::one(), F::zero()],
        vec![F::zero(), F::one(), F::one()],
    ];
    let mut v = Vec::new();
    let mut ark_rng = test_rng();
    for _ in 0..(full_rounds + partial_rounds) {
        let mut res = Vec::new();
        for _ in 0..3 {
            res.push(F::rand(&mut ark_rng));
        }
        v.push(res);
    }
    let config = PoseidonConfig::new(full_rounds, partial_rounds, alpha, mds, v, 2, 1);
    PoseidonSponge::new(&config)
}

/// A two-leaf Merkle tree whose leaf 0 is the hash of the all-zero column of height `n_rows`.
/// Returns (root, path of leaf 0).
fn zero_column_tree(n_rows: usize) -> (<MTConfig as Config>::InnerDigest, Path<MTConfig>, Vec<Fr>) {
    let col0 = vec![Fr::zero(); n_rows];
    let leaf0: Vec<u8> = <ColHasher<Fr> as CRHScheme>::evaluate(&(), col0.clone()).unwrap();
    let leaves: Vec<Vec<u8>> = vec![leaf0, Vec::<u8>::default()];
    let tree = MerkleTree::<MTConfig>::new(&(), &(), leaves).unwrap();
    (tree.root(), tree.generate_proof(0).unwrap(), col0)
}

/// Build commitment / proof objects (their fields are private) through canonical serialization.
fn forge<PCS, P>(
    n_rows: usize,
    n_cols: usize,
    n_ext_cols: usize,
    v: &[Fr],
) -> (LabeledCommitment<PCS::Commitment>, PCS::Proof)
where
    P: ark_poly::Polynomial<Fr>,
    PCS: PolynomialCommitment<Fr, P>,
    PCS::Proof: CanonicalDeserialize,
{
    let (root, path, col0) = zero_column_tree(n_rows);

    // LinCodePCCommitment { metadata: { n_rows, n_cols, n_ext_cols }, root }
    let mut bytes = Vec::new();
    n_rows.serialize_compressed(&mut bytes).unwrap();
    n_cols.serialize_compressed(&mut bytes).unwrap();
    n_ext_cols.serialize_compressed(&mut bytes).unwrap();
    root.serialize_compressed(&mut bytes).unwrap();
    let commitment = PCS::Commitment::deserialize_compressed(&bytes[..]).unwrap();

    // Vec<LinCodePCProof { opening: { paths, v, columns }, well_formedness }>
    let mut bytes = Vec::new();
    1u64.serialize_compressed(&mut bytes).unwrap(); // one proof in the array
    vec![path].serialize_compressed(&mut bytes).unwrap();
    v.to_vec().serialize_compressed(&mut bytes).unwrap();
    vec![col0].serialize_compressed(&mut bytes).unwrap();
    Some(vec![Fr::zero(); n_cols])
        .serialize_compressed(&mut bytes)
        .unwrap();
    let proof = PCS::Proof::deserialize_compressed(&bytes[..]).unwrap();

    (LabeledCommitment::new("forged".to_string(), commitment, None), proof)
}

fn accepted<T, E: core::fmt::Debug>(r: Result<bool, E>, _t: T) -> bool {
    matches!(r, Ok(true))
}

#[test]
fn ligero_commitment_with_n_ext_cols_one_opens_to_any_value() {
    let pp: LigeroPCParams<Fr, MTConfig, ColHasher<Fr>> =
        LigeroPCParams::new(128, 4, true, (), (), ());
    let (_ck, vk) = LigeroPCS::trim(&pp, 0, 0, None).unwrap();

    let z = Fr::from(5u64);
    let mut results = Vec::new();
    for target in [Fr::from(1234567u64), Fr::from(42u64)] {
        // 1 x 2 matrix, "extended" to ONE column.  v = (c, -c): E(v)[0] = v(1) = 0,
        // <v, (1, z)> = c (1 - z) = target.
        let c = target * (Fr::one() - z).inverse().unwrap();
        let v = vec![c, -c];
        let (comm, proof) = forge::<LigeroPCS, UniPoly>(1, 2, 1, &v);
        let r = LigeroPCS::check(
            &vk,
            [&comm],
            &z,
            [target],
            &proof,
            &mut test_sponge::<Fr>(),
            None,
        );
        println!("ligero: claimed value {target} -> {r:?}");
        results.push(accepted(r, ()));
    }
    assert!(
        !(results[0] && results[1]),
        "the same Ligero commitment was opened at the same point to two different values"
    );
}

#[test]
fn brakedown_commitment_with_n_ext_cols_one_opens_to_any_value() {
    let rng = &mut test_rng();
    let num_vars = 6;
    let pp = BrakedownPCS::setup(1 << num_vars, Some(num_vars), rng).unwrap();
    let (ck, vk) = BrakedownPCS::trim(&pp, 0, 0, None).unwrap();

    // Learn the row length `m` the parameters impose from an honest commitment.
    let honest = LabeledPolynomial::new(
        "honest".to_string(),
        MLPoly::rand(num_vars, rng),
        None,
        None,
    );
    let (hc, _) = BrakedownPCS::commit(&ck, [&honest], None).unwrap();
    let mut bytes = Vec::new();
    hc[0].commitment().serialize_compressed(&mut bytes).unwrap();
    let mut rd = &bytes[..];
    let n_rows = usize::deserialize_compressed(&mut rd).unwrap();
    let m = usize::deserialize_compressed(&mut rd).unwrap();
    let n_ext = usize::deserialize_compressed(&mut rd).unwrap();
    println!("honest Brakedown metadata: n_rows={n_rows} n_cols={m} n_ext_cols={n_ext}");
    assert!(m.is_power_of_two() && m >= 2);

    // A point with log2(m) coordinates, so that b = tensor([]) = [1] and n_rows = 1.
    let point: Vec<Fr> = (0..m.trailing_zeros()).map(|_| Fr::rand(rng)).collect();
    // a[1] = z_0 * prod_{i>0} (1 - z_i)
    let a1 = point
        .iter()
        .enumerate()
        .map(|(i, z)| if i == 0 { *z } else { Fr::one() - z })
        .product::<Fr>();

    let mut results = Vec::new();
    for target in [Fr::from(1234567u64), Fr::from(42u64)] {
        // Brakedown's code is systematic: E(v)[0] = v[0] = 0.  Everything else in v is free.
        let mut v = vec![Fr::zero(); m];
        v[1] = target * a1.inverse().unwrap();
        let (comm, proof) = forge::<BrakedownPCS, MLPoly>(1, m, 1, &v);
        let r = BrakedownPCS::check(
            &vk,
            [&comm],
            &point,
            [target],
            &proof,
            &mut test_sponge::<Fr>(),
            None,
        );
        println!("brakedown: claimed value {target} -> {r:?}");
        results.push(accepted(r, ()));
    }
    assert!(
        !(results[0] && results[1]),
        "the same Brakedown commitment was opened at the same point to two different values"
    );
}
