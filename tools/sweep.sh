#!/bin/bash
# multi-seed sweep of the quick tier of every claimed check (no evidence written to /verif/evidence)
# usage: tools/sweep.sh "1 2 3" [props...]
seeds=${1:-"1 2 3"}; shift
props=${@:-C01 C02 C03 C04 C05 C06 C07 C10 C11 C12 C17 C18}
for seed in $seeds; do for p in $props; do
  out=$(VERIF_SEED=$seed PCSIM_REPLAYS=/tmp/sweep-replays /verif/target/sim/release/pcsim run $p --evidence /tmp/sweep-ev.json 2>/dev/null)
  n=$(echo "$out" | grep -c "^VIOLATION"); h=$(echo "$out" | grep -c "^HARNESS-ERROR")
  echo "seed=$seed $p violations=$n harness=$h $(echo "$out" | grep '^done' | cut -c1-60)"
  [ "$n" != "0" ] && echo "$out" | grep "^violation" | cut -c1-300
done; done
