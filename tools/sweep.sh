#!/bin/bash
# Multi-seed sweep of every claimed check on the UNCHANGED tree (false-alarm hunting).
#   tools/sweep.sh "<seeds>" [quick|thorough] [props...]
# Meant for `vp run --with-repo -- ./tools/sweep.sh "1 2 3 4 5" quick`: in a snapshot it builds its own
# binaries and, when VP_RUN_REPO is set, points the manifests at the /repo snapshot so that edits to
# /repo itself (seeded changes being tried out) cannot disturb it. Evidence goes to the snapshot.
ROOT=$(dirname "$(dirname "$(readlink -f "$0")")")
cd "$ROOT" || exit 2
seeds=${1:-"1 2 3"}; tier=${2:-quick}; shift 2 2>/dev/null
props=${@:-C01 C02 C03 C04 C05 C06 C07 C10 C11 C12 C17 C18}
if [ -n "${VP_RUN_REPO:-}" ] && [ "$ROOT" != "/verif" ]; then
  sed -i "s#/repo/poly-commit#$VP_RUN_REPO/poly-commit#" sim/Cargo.toml sim-seq/Cargo.toml sim-real/Cargo.toml
  echo "using repo snapshot $VP_RUN_REPO ($(git -C $VP_RUN_REPO log --oneline -1))"
fi
./check setup || exit 2
bad=0
for seed in $seeds; do for p in $props; do
  out=$(VERIF_SEED=$seed ./check $p $tier 2>&1); rc=$?
  n=$(echo "$out" | grep -c "^VIOLATION")
  echo "seed=$seed $p exit=$rc violations=$n $(echo "$out" | grep '^done' | cut -c1-110)"
  if [ "$rc" != "0" ]; then bad=1; echo "$out" | grep "^violation\|HARNESS\|minimised" | cut -c1-400; fi
done; done
echo "sweep finished bad=$bad"
exit $bad
