#!/bin/bash
# Try a patch against the checks without touching /repo:
#   vp run --with-repo -- ./tools/try_patch.sh /abs/path/patch.diff "C01 C05"
ROOT=$(dirname "$(dirname "$(readlink -f "$0")")")
cd "$ROOT" || exit 2
[ -n "${VP_RUN_REPO:-}" ] && [ "$ROOT" != "/verif" ] || { echo "run me under vp run --with-repo"; exit 2; }
sed -i "s#/repo/poly-commit#$VP_RUN_REPO/poly-commit#" sim/Cargo.toml sim-seq/Cargo.toml sim-real/Cargo.toml
git -C $VP_RUN_REPO apply "$1" || { echo "patch does not apply"; exit 2; }
for p in $2; do
  out=$(./check $p quick 2>&1); rc=$?
  echo "$(basename $(dirname $1)) $p exit=$rc $(echo "$out" | grep '^done' | sed 's/.*events), //' | cut -c1-70)"
  echo "$out" | grep "^violation" | head -3 | cut -c1-300
  echo "$out" | grep "^NOTE\|HARNESS" | head -3
done
git -C $VP_RUN_REPO checkout -- .
