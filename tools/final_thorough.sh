#!/bin/bash
# runs every claimed check at the thorough tier, one after the other, from /verif against /repo
cd "$(dirname "$(readlink -f "$0")")/.."
mkdir -p target/logs
: > target/logs/thorough.summary
for P in ${1:-C01 C02 C03 C04 C05 C06 C07 C10 C11 C12 C17 C18}; do
  start=$(date +%s)
  ./check $P thorough > target/logs/thorough.$P.log 2>&1
  rc=$?
  echo "$P exit=$rc wall=$(( $(date +%s) - start ))s $(grep -c '^VIOLATION' target/logs/thorough.$P.log) violation line(s); $(tail -1 target/logs/thorough.$P.log | cut -c1-200)" >> target/logs/thorough.summary
done
echo "ALL DONE" >> target/logs/thorough.summary
