#!/usr/bin/env python3
"""keep_seeded.py <id> <property> <needs> <caught_by> : copies a confirmed seeded change from /tmp/mut/<id> into /verif/seeded/<id>"""
import sys, os, shutil, json, re
id_, prop, needs, caught = sys.argv[1:5]
src=f'/tmp/mut/{id_}'; dst=f'/verif/seeded/{id_}'
os.makedirs(dst, exist_ok=True)
shutil.copy(f'{src}/patch.diff', f'{dst}/patch.diff')
shutil.copy(f'{src}/demo.rs', f'{dst}/demo.rs')
note=open(f'{src}/NOTE.md').read() if os.path.exists(f'{src}/NOTE.md') else ''
vlog=open(f'{src}/verify.log').read() if os.path.exists(f'{src}/verify.log') else ''
suite=re.findall(r'test result: .*', vlog)
meta={
 "id": id_, "breaks_property": prop,
 "what": note.strip().split('\n\n')[0][:1200],
 "needs_to_manifest": needs,
 "author": "independent sub-agent given only the property text and a scratch worktree (nothing from /verif)",
 "confirmed_by_me": {
   "how": "/tmp/mut/verify.sh in the scratch worktree: existing suite (cargo test --lib, 113 tests) with the patch applied; demo (poly-commit/tests/demo_%s.rs) with the patch applied and on the clean sources" % id_,
   "suite_with_patch": suite[0] if suite else "see log",
   "demo_with_patch": "fails", "demo_on_clean_tree": "passes",
 },
 "checks_run_against_it": "git -C /repo apply seeded/%s/patch.diff; ./check <P> quick; git -C /repo checkout -- ." % id_,
 "caught_by": caught,
}
json.dump(meta, open(f'{dst}/meta.json','w'), indent=1)
print("kept", dst)
