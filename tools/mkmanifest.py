#!/usr/bin/env python3
"""Regenerates /verif/MANIFEST.json from the table below (keeps the file valid and in sync)."""
import json, subprocess, sys

CLAIMED = {
 # id: (technique, level category, level text, design ref, level note)
 "C01": ("deterministic session simulation (seeded swarm of scenarios) with benign fault injection: reorder, duplicate, short I/O, EINTR, crash-restart, re-serialization, seeded rayon schedules; liveness oracle",
         "exploration",
         "Seeded search over simulated authority/prover/verifier sessions of every scheme (19 trait-scheme instantiations, raw KZG10 and MultilinearPC through four adapter instantiations, streaming KZG through its own driver) with benign faults; every verification of a true claim must be accepted and no party may abort. Sampling over the configuration space, not enumeration.",
         "3.1", "ground truth from the harness's independent evaluators; ark-* dependencies trusted; rayon replaced by the deterministic shim"),
 "C02": ("deterministic session simulation with statement-corruption faults on in-flight claims (value+delta at every position, cancelling deltas in a point group, moved point, commitment swapped for commit(q)); safety oracle against the reference model",
         "exploration",
         "An accepted honest transcript is re-delivered with exactly one statement fault at every position of check / batch_check / check_combinations; the verifier must not accept. Positions are enumerated inside a session, sessions are sampled.",
         "3.2", "claims are made false by construction and checked against the reference model before the fault is scheduled; 128-bit challenges"),
 "C06": ("deterministic session simulation of open_combinations/check_combinations with LC-statement faults on the verifier's view (claimed LC value, coefficient, constant, dropped term, transmitted evaluations perturbed with LC sums held fixed) and degree-bound-policy requests; safety + liveness oracles against the reference model",
         "exploration",
         "Honest combination proofs (arbitrary coefficients incl. 0/-1, repeated labels, constants, several LCs per point, point labels sharing a value, permuted LC lists on both sides) must be accepted; every tampered statement that contains a false claim must not be; LCs mixing a degree-bounded polynomial with other terms must be refused on both sides.",
         "3.6", "a tampered statement only counts when the reference model says it contains a false claim"),
 "C07": ("RNG-seam simulation: every party RNG is a counted, named ChaCha20 stream; commit's draws are metered, the same session is forked under identical and under different prover streams, 16 commitments are drawn from one stream, the RNG is withheld, and commitment / state / public hiding generators / proof blinding fields are cross-checked (commitment - non-hiding commitment == <blinders, hiding generators>; random_v == blinding polynomials at the point under the traced transcript challenges)",
         "exploration",
         "For KZG-family, PST13, IPA and Hyrax sessions: 0 bytes drawn and no blinding without a hiding bound; >= (h+2) field elements per blinded commitment (twice for degree-bounded Marlin), blinding polynomial of degree exactly h+1; identical streams give byte-identical commitments and proofs, different streams give different hiding commitments and blinding fields; 16 repeated commitments pairwise distinct; no RNG => Err/abort.",
         "3.7", "Hyrax under `parallel` draws its commit blinders from the hooked thread RNG, not the caller's; the non-hiding commitment used as reference is the library's own"),
 "C10": ("refinement check against executable reference verifiers: for each scheme a small naive re-implementation of the published relation with the same challenge derivation (replayed on a fork of the traced sponge) is compared, operation by operation, with the library verifier over the single-fault neighbourhood of honest transcripts (value, each point coordinate, each commitment element, degree-bound label, each proof element, each verifier-key element replaced in flight by a fresh valid element)",
         "exploration",
         "library_decision == reference_decision on every transcript of the neighbourhood and on the honest transcript (which the reference must accept), for check and (as AND over point labels) batch_check, all eight trait schemes; equal end sponge states on accepted transcripts.",
         "3.8", "the reference shares ark-ec/ark-ff, Poseidon, and LinearEncode::{encode,tensor} / Path::verify with the library; only same-shape replacements are in the property's domain"),
 "C11": ("history simulation on a traced Fiat-Shamir sponge: sequences of up to 6 open/batch/LC operations on one shared sponge with crash-restart of either party, lock-step invariants after every prefix, and proofs re-delivered at other positions / against diverged or stale sponge states",
         "exploration",
         "After every prefix of the history the check accepts and prover and verifier sponges are byte-identical (state, mode, trace shape, next squeeze); a claim verified against any other transcript state (moved, stale snapshot, dropped/altered/duplicated prior absorb) is not accepted unless all its polynomials are constant.",
         "3.9", "PoseidonSponge public state compared directly; constant-polynomial exemption decided by the reference model (two-point test)"),
 "C12": ("I/O fault injection on every serializable artefact of simulated sessions through faulty Read/Write endpoints: short reads/writes, EINTR, disk error at byte k and EOF at byte k enumerated over every offset of artefacts <= 4 KiB (sampled offsets above), x compress x validate; decision equality after reload",
         "fault_enumeration",
         "Per artefact the crash-point space (write error at offset k, truncation at offset k) is enumerated exhaustively for encodings <= 4 KiB; serialize must return Err with a prefix written, deserialize of a proper prefix must return Err, short/interrupted transfers must round-trip bit-exactly, serialized_size must equal bytes written, and verification decisions with reloaded keys/commitments/proofs must equal the originals on an honest and a tampered claim.",
         "3.10", "EINTR on write may surface as Err (ark-serialize writes bool with Write::write): Ok => identical bytes is what is demanded; streaming-KZG types implement no serialization"),
 "C17": ("simulated client requests outside each scheme's domain against honest surroundings, magnitudes at the boundary (supported+1, bound not enforced / below degree / above supported, hiding 0 / beyond key, missing RNG, wrong arity, mismatched labels, trim/setup beyond parameters) plus message-drop faults (commitment or evaluation never arrives); admission-table reference model; abort = crash of the party step",
         "exploration",
         "Every request kind of the admission table is issued in sampled sessions of every scheme it applies to; the party step must end in Err or abort and emit no commitment, proof or positive decision.",
         "3.11", "only request kinds the statement lists are in the table; in-domain no-abort is the liveness oracle of C01/C06/C11 runs"),
 "C03": ("deterministic session simulation with a byzantine prover and proof-corruption faults accompanying a claim made false first: every single-component replacement / Option toggle / shape mutation of a proof (IPA rounds log_d +- k, PST13 witness list, Hyrax z, linear-code v / well-formedness / columns / paths through mirror structs), batch proof lists truncated/extended/permuted/duplicated, library prover run on (q, state_q) against commitment(p), foreign commitment state, proofs replayed from other points / commitments, and two targeted linear-code forgeries (columns solved for a false v' with honest paths attached; v interleaved with zeros)",
         "exploration",
         "Every item of the attack catalogue is applied to accepted honest transcripts of every scheme; the verifier must not accept any of the resulting false claims. A finite catalogue, not cryptographic soundness.",
         "3.3", "claims are false by construction (checked against the reference model); forgeries replay the verifier's transcript on a fork of its sponge"),
 "C04": ("deterministic session simulation with bound-metadata faults on in-flight commitments (bound mislabelled on the channel or by a byzantine prover that re-runs the library prover under the other label, label dropped, degree-bound part dropped / swapped with another polynomial's / taken from another bound, label added to an unbounded commitment) plus prover-side admission requests at the boundary (deg = d+1, bound not enforced, keys trimmed without bounds, bound or degree above supported)",
         "exploration",
         "For MarlinKZG10, SonicKZG10 and IPA: an honest transcript re-delivered with any bound fault must not be accepted (exempt only presentations that are bit-identical in distribution to an honest commitment under the presented label: zero polynomial, constant presented without bound, Sonic zero shift); out-of-bound commit/open requests must end in Err/abort.",
         "3.4", "exemptions are stated in DESIGN.md section 3.4; MarlinKZG10's acceptance of bounds in (supported, max] is a recorded known finding"),
 "C18": ("seeded scheduler search: the whole dependency graph runs on a deterministic rayon replacement whose job order, reduction splits, join order and thread-count knob are drawn from the seed; each scenario is executed under the identity schedule, 5 seeded schedules x thread knobs {1,2,3,8,16} and one schedule twice, and its output digests are compared; a build without `parallel` and a real-rayon build at 1/2/3/8/16/16 threads are compared on the same scenarios",
         "exploration",
         "SHA-256 digests of keys, commitments, states, proofs, decisions and verifier sponge states (Hyrax commitments/proofs excluded as the property says) must be identical across all schedules, thread knobs and the three build variants; a same-schedule divergence flags entropy that bypasses every seam.",
         "3.12", "the shim explores only executions real rayon permits; variant C (real rayon) is corroboration only, its nondeterminism is not controlled"),
 "C05": ("dual-verifier simulation: batch verifier replica vs per-point check replica on identical delivered messages, with false-claim subsets, challenge-aware cancelling errors across point groups, proof-list permutation/truncation/extension/duplication, and the verifier-RNG seam re-seeded 4 times",
         "exploration",
         "For every delivered (possibly faulted) batch the decision of batch_check must equal the AND of the individual checks under every verifier RNG stream; challenge-aware cross-group cancellation targets constant or reused batch randomizers.",
         "3.5", "verifier RNG assumed non-adversarial (not stuck-at); Err/abort count as reject"),
}

NOT_APPLICABLE = {
 "C08": "identity on the return value of single honest calls (commitment == key-defined linear map); no party boundary, stream, RNG, schedule, history or fault in the statement - input generation only, which is not a simulation target (DESIGN.md section 4)",
 "C09": "element-wise algebraic facts about one setup/trim call's output (pairing consistency, sub-key faithfulness); pure function of its input (DESIGN.md section 4)",
 "C13": "t is an arithmetic function of (lambda, distance, n, |F|) and linearity of encode is an identity; nothing to schedule or fault (DESIGN.md section 4)",
 "C14": "equality of two deterministic provers on the same input; differential testing of pure functions, the Iterable streams have no error channel to inject into (DESIGN.md section 4)",
 "C15": "enumeration over one setup call's output (one key element per monomial); pure (DESIGN.md section 4)",
 "C16": "operator identities on LinearCombination / evaluate_query_set / SuccinctCheckPolynomial; pure functions (DESIGN.md section 4)",
 "C19": "serialized sizes as functions of N; pure measurement of honest outputs (DESIGN.md section 4)",
}
# claimed in DESIGN.md but whose check is not built yet at this commit
PENDING = {
}

def main():
    props = [json.loads(l)["id"] for l in open("/verif/properties.jsonl")]
    checks = []
    for pid in props:
        if pid in CLAIMED:
            tech, cat, text, ref, note = CLAIMED[pid]
            checks.append({
                "property_id": pid,
                "quick_cmd": f"./check {pid} quick",
                "thorough_cmd": f"./check {pid} thorough",
                "evidence_file": f"/verif/evidence/{pid}.json",
                "replay_cmd_template": f"./check {pid} --replay {{path}}",
                "engine": "pcsim",
                "level_claimed": {"category": cat, "text": text, "design_ref": f"DESIGN.md §{ref}"},
                "level_note": note,
                "technique": tech,
            })
    na = []
    for pid in props:
        if pid in CLAIMED: continue
        if pid in NOT_APPLICABLE: na.append({"property_id": pid, "reason": NOT_APPLICABLE[pid]})
        elif pid in PENDING: na.append({"property_id": pid, "reason": PENDING[pid]})
        else: na.append({"property_id": pid, "reason": "claimed in DESIGN.md; its check is not built yet at this commit, so it is not claimed here"})
    hook_commits = subprocess.run(["git","-C","/repo","log","--format=%H %s","--grep=pc_verif"],capture_output=True,text=True).stdout.strip().splitlines()
    m = {
        "version": 1,
        "setup_cmd": "./check setup",
        "hooks": {
            "guard": "--cfg pc_verif",
            "enable": "RUSTFLAGS '--cfg pc_verif' via /verif/sim/.cargo/config.toml ([build] rustflags); the simulator crates take ark-poly-commit as a path dependency on /repo/poly-commit",
            "baseline_off_cmd": "cd /repo && cargo nextest run --workspace --no-fail-fast --tool-config-file pb:/w/lib/nextest.toml --profile pb --test-threads 8 --offline",
            "source_commits": [c.split()[0] for c in hook_commits],
            "add_only": True,
        },
        "engines": [
            {"name": "pcsim", "path": "/verif/sim", "serves_properties": sorted(CLAIMED), "kind_free_text": "deterministic simulator: seeded scenario generator, party/store/channel executor, fault catalogue, reference model, shrinker, replay"},
            {"name": "rayon-shim", "path": "/verif/shims/rayon", "serves_properties": sorted(CLAIMED), "kind_free_text": "single-threaded seeded replacement for rayon, patched into the whole dependency graph ([patch.crates-io])"},
        ],
        "checks": checks,
        "not_applicable": na,
        "notes": "Technique family: deterministic simulation with fault injection. See DESIGN.md; known_findings.json lists genuine defects (status fixed / known). Unguarded repairs in /repo (commit messages start with fix:): c8ccc8f 2183fb2 266db9f 7d54976 f26a00c e1833a0 59ee085 f3b67ba ea9ea30 25f917a b212496 575af89 33261f7 af6a4ca b0c785d. Guarded hook: d6804a8 (--cfg pc_verif). seeded/ holds 82 independently written property-breaking changes with the checks that catch them.",
    }
    json.dump(m, open("/verif/MANIFEST.json","w"), indent=1)
    print("MANIFEST.json:", len(checks), "checks,", len(na), "not claimed")

main()
