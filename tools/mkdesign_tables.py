#!/usr/bin/env python3
"""Regenerates the seeded-change and cost tables of DESIGN.md §10.5/10.6 from seeded/*/meta.json and evidence/*.json."""
import json, glob, os, re
p='/verif/DESIGN.md'; s=open(p).read()
rows=["| id | breaks | what it is / what it needs to manifest | caught by |","|---|---|---|---|"]
for m in sorted(glob.glob('/verif/seeded/*/meta.json')):
    j=json.load(open(m))
    what=j['what'].lstrip('# ').split('\n')[0]
    rows.append("| %s | %s | %s. Needs: %s | %s |"%(j['id'], j['breaks_property'], what.replace('|','/'), j['needs_to_manifest'].replace('|','/'), j['caught_by'].replace('|','/')))
seeded="\n".join(rows)
rows=["| check | scenarios | wall s | scenarios / hour | distinct classes | verifier checks | faults fired (kinds) | schemes |","|---|---|---|---|---|---|---|---|"]
for e in sorted(glob.glob('/verif/evidence/C*.json'))+sorted(glob.glob('/verif/evidence/thorough/C*.json')):
    j=json.load(open(e)); c=j['coverage']
    rows.append("| %s (%s) | %d | %.0f | %d | %d | %d | %d (%d) | %d |"%(j['property_id'], j['tier'], c['evaluations'], j['wall_s'], c.get('runs_per_hour',0), c['distinct_nontrivial'], c.get('verifier_checks',0), sum(c.get('faults_fired',{}).values()), len(c.get('faults_fired',{})), len(c.get('runs_per_scheme',{}))))
cost="\n".join(rows)
def put(tag, body):
    global s
    b,e='<!-- %s:BEGIN -->'%tag,'<!-- %s:END -->'%tag
    if '@%s@'%tag in s:
        s=s.replace('@%s@'%tag, b+'\n'+body+'\n'+e)
    else:
        s=re.sub(re.escape(b)+'.*?'+re.escape(e), lambda _: b+'\n'+body+'\n'+e, s, flags=re.S)
put('SEEDED_TABLE', seeded); put('COST_TABLE', cost)
open(p,'w').write(s)
print("tables updated")
