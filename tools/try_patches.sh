#!/bin/bash
# Several patches, one snapshot build:  vp run --with-repo -- ./tools/try_patches.sh "/abs/a.diff=C01 C05" "/abs/b.diff=C03"
ROOT=$(dirname "$(dirname "$(readlink -f "$0")")")
cd "$ROOT" || exit 2
[ -n "${VP_RUN_REPO:-}" ] && [ "$ROOT" != "/verif" ] || { echo "run me under vp run --with-repo"; exit 2; }
sed -i "s#/repo/poly-commit#$VP_RUN_REPO/poly-commit#" sim/Cargo.toml sim-seq/Cargo.toml sim-real/Cargo.toml
for spec in "$@"; do
  patch=${spec%%=*}; props=${spec#*=}
  git -C $VP_RUN_REPO apply "$patch" || { echo "$patch: does not apply"; continue; }
  for p in $props; do
    out=$(./check $p quick 2>&1); rc=$?
    echo "$(basename $(dirname $patch)) $p exit=$rc $(echo "$out" | grep '^done' | sed 's/.*events), //' | cut -c1-70)"
    echo "$out" | grep "^violation" | head -2 | cut -c1-300
    echo "$out" | grep "^NOTE\|HARNESS" | head -3
  done
  git -C $VP_RUN_REPO checkout -- .
done
echo "all tried"
