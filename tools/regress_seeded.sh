#!/bin/bash
# Regression of the kept seeded changes against the current checks, in a `vp run --with-repo` snapshot:
#   vp run --with-repo -- ./tools/regress_seeded.sh "c01a c02a ..."     (default: every seeded/<id>)
# For each change: apply seeded/<id>/patch.diff to the /repo SNAPSHOT, run the quick check(s) named
# first in meta.json:caught_by (C??), report violations, restore the snapshot.
ROOT=$(dirname "$(dirname "$(readlink -f "$0")")")
cd "$ROOT" || exit 2
[ -n "${VP_RUN_REPO:-}" ] && [ "$ROOT" != "/verif" ] || { echo "run me under vp run --with-repo"; exit 2; }
sed -i "s#/repo/poly-commit#$VP_RUN_REPO/poly-commit#" sim/Cargo.toml sim-seq/Cargo.toml sim-real/Cargo.toml
ids=${1:-$(ls seeded)}
for id in $ids; do
  m=seeded/$id/meta.json
  props=$(python3 -c "import json,re,sys; m=json.load(open('$m')); c=re.findall(r'C\d\d', m['caught_by']); print(' '.join(dict.fromkeys(c[:2])) or m['breaks_property'])")
  if ! git -C $VP_RUN_REPO apply $ROOT/seeded/$id/patch.diff 2>/dev/null; then echo "$id: patch does not apply to the current tree ($(python3 -c "import json; print(json.load(open('$m')).get('status','?'))"))"; continue; fi
  for p in $props; do
    out=$(nice -n 15 ./check $p quick 2>&1); rc=$?
    echo "$id $p exit=$rc $(echo "$out" | grep '^done' | sed 's/.*events), //' | cut -c1-60)"
  done
  git -C $VP_RUN_REPO checkout -- .
done
echo "regression finished"
